"""Hand-derived truth tables for the reference model (psmc/ref.py). Run: /venv/bin/python -m selftest.ref_tables"""
from psmc import ref
from psmc.dsl import fixed, var, zero, worker, select, cumul, req, con, prog, R, E, new, const_fn, lin_fn, poly_fn

T, F, U = True, False, None
FAILS = []


def L(**kw):
    """leaf helper: a=(0,1) -> start/end; a=None -> unscheduled; sel_s_w=True; dur_a=2"""
    leaf = {}
    for k, v in kw.items():
        if k.startswith("sel_"):
            _, s, w = k.split("_")
            leaf[("sel", s, w)] = v
        elif k.startswith("dur_"):
            leaf[("dur", k[4:])] = v
        elif k.startswith("ap_"):
            leaf[("applied", k[3:])] = v
        elif k == "horizon":
            leaf[("horizon",)] = v
        elif v is None:
            leaf[("sched", k)] = False
        else:
            leaf[("start", k)], leaf[("end", k)] = v
    return leaf


def check(name, program, leaf, want, only=None):
    cl = ref.clauses(program, leaf)
    if only:
        cl = [c for c in cl if c[0] == only]
    got = ref.verdict(cl)
    if got != want:
        FAILS.append((name, want, got, [c[:4] for c in cl if c[3] is not True]))


def main():
    AB = [fixed("a", 1), fixed("b", 2)]
    P = lambda *d, H=4: prog(H, list(d))
    # task rules
    check("dur", P(*AB), L(a=(0, 1), b=(1, 3)), T)
    check("dur-bad", P(*AB), L(a=(0, 2), b=(1, 3)), F)
    check("start<0", P(*AB), L(a=(-1, 0), b=(1, 3)), F)
    check("end>H", P(*AB), L(a=(0, 1), b=(3, 5)), F)
    check("release", P(fixed("a", 1, release_date=2)), L(a=(1, 2)), F)
    check("release-ok", P(fixed("a", 1, release_date=2)), L(a=(2, 3)), T)
    check("deadline", P(fixed("a", 1, due_date=2)), L(a=(2, 3)), F)
    check("not-a-deadline", P(fixed("a", 1, due_date=2, due_date_is_deadline=False)), L(a=(2, 3)), T)
    check("var-range", P(var("a", min_duration=1, max_duration=2)), L(a=(0, 3), dur_a=3), F)
    check("var-allowed", P(var("a", allowed_durations=[1, 3])), L(a=(0, 2), dur_a=2), F)
    check("unscheduled-free", P(fixed("a", 1, optional=True, release_date=3)), L(a=None), T)
    # precedence
    pr = lambda k, off=0: P(*AB, con("TaskPrecedence", "c", task_before=R("a"), task_after=R("b"), kind=k, offset=off))
    check("lax-eq", pr("lax"), L(a=(0, 1), b=(1, 3)), T)
    check("strict-eq", pr("strict"), L(a=(0, 1), b=(1, 3)), F)
    check("tight-gap", pr("tight"), L(a=(0, 1), b=(2, 4)), F)
    check("tight-offset", pr("tight", 1), L(a=(0, 1), b=(2, 4)), T)
    check("lax-offset-short", pr("lax", 2), L(a=(0, 1), b=(2, 4)), F)
    # dont overlap / synced / contiguous
    check("overlap", P(*AB, con("TasksDontOverlap", "c", task_1=R("a"), task_2=R("b"))), L(a=(1, 2), b=(0, 2)), F)
    check("touch", P(*AB, con("TasksDontOverlap", "c", task_1=R("a"), task_2=R("b"))), L(a=(2, 3), b=(0, 2)), T)
    check("contig", P(*AB, con("TasksContiguous", "c", list_of_tasks=[R("a"), R("b")])), L(a=(2, 3), b=(0, 2)), T)
    check("contig-gap", P(*AB, con("TasksContiguous", "c", list_of_tasks=[R("a"), R("b")])), L(a=(3, 4), b=(0, 2)), F)
    # groups
    g = P(fixed("a", 1), fixed("b", 1, optional=True), fixed("c", 1), con("OrderedTaskGroup", "g", list_of_tasks=[R("a"), R("b"), R("c")], kind="lax"))
    check("group-skip", g, L(a=(1, 2), b=None, c=(0, 1)), F)
    check("group-skip-ok", g, L(a=(0, 1), b=None, c=(1, 2)), T)
    check("group-window", P(*AB, con("UnorderedTaskGroup", "g", list_of_tasks=[R("a"), R("b")], time_interval_length=2)), L(a=(0, 1), b=(1, 3)), F)
    # schedule N
    sn = lambda n, k: P(*AB, con("ScheduleNTasksInTimeIntervals", "c", list_of_tasks=[R("a"), R("b")], nb_tasks_to_schedule=n, list_of_time_intervals=[(0, 2)], kind=k))
    check("sn-exact", sn(1, "exact"), L(a=(0, 1), b=(0, 2)), F)
    check("sn-max", sn(1, "max"), L(a=(0, 1), b=(1, 3)), T)
    check("sn-min", sn(2, "min"), L(a=(0, 1), b=(1, 3)), F)
    # resources
    W = [worker("w"), req("a", "w"), req("b", "w")]
    check("worker-overlap", P(*AB, *W), L(a=(1, 2), b=(0, 2)), F)
    check("worker-ok", P(*AB, *W), L(a=(2, 3), b=(0, 2)), T)
    check("delay", P(fixed("a", 3), fixed("b", 1), worker("w"), req("a", "w", delay_in=1), req("b", "w")), L(a=(0, 3), b=(0, 1)), T)
    check("cumul-cap", P(fixed("a", 1), fixed("b", 1), fixed("c", 1), cumul("k", 2), req("a", "k"), req("b", "k"), req("c", "k"), H=2),
          L(a=(0, 1), b=(0, 1), c=(0, 1)), F)
    S = [worker("w"), worker("v"), select("s", ["w", "v"], 1, "exact"), req("a", "s"), req("b", "w")]
    check("sel-count", P(*AB, *S), L(a=(0, 1), b=(1, 3), sel_s_w=True, sel_s_v=True), F)
    check("sel-other-worker", P(*AB, *S), L(a=(1, 2), b=(0, 2), sel_s_w=False, sel_s_v=True), T)
    check("sel-same-worker", P(*AB, *S), L(a=(1, 2), b=(0, 2), sel_s_w=True, sel_s_v=False), F)
    check("work", P(var("a", work_amount=4), worker("w", productivity=2), req("a", "w")), L(a=(0, 1), dur_a=1), F)
    check("work-ok", P(var("a", work_amount=4), worker("w", productivity=2), req("a", "w")), L(a=(0, 2), dur_a=2), T)
    # resource constraints
    check("unavail", P(*AB, *W, con("ResourceUnavailable", "c", resource=R("w"), list_of_time_intervals=[(1, 2)])), L(a=(3, 4), b=(0, 2)), F)
    check("unavail-touch", P(*AB, *W, con("ResourceUnavailable", "c", resource=R("w"), list_of_time_intervals=[(2, 3)])), L(a=(3, 4), b=(0, 2)), T)
    wl = lambda k, b: P(*AB, *W, con("WorkLoad", "c", resource=R("w"), kind=k, dict_time_intervals_and_bound={"$tupkeys": [[[1, 3], b]]}))
    check("wl-max", wl("max", 1), L(a=(2, 3), b=(0, 2)), F)  # busy inside (1,3): 1 + 1
    check("wl-exact", wl("exact", 2), L(a=(2, 3), b=(0, 2)), T)
    check("wl-min", wl("min", 2), L(a=(3, 4), b=(0, 2)), F)
    pu = P(fixed("a", 3), worker("w"), req("a", "w"), con("ResourcePeriodicallyUnavailable", "c", resource=R("w"), list_of_time_intervals=[(1, 2)], period=4), H=8)
    check("periodic-next-window", pu, L(a=(3, 6)), F)
    check("periodic-fits", pu, L(a=(2, 5)), T)
    dist = lambda m, d: P(*AB, *W, con("ResourceTasksDistance", "c", resource=R("w"), distance=d, mode=m))
    check("dist-exact", dist("exact", 1), L(a=(3, 4), b=(0, 2)), T)
    check("dist-min", dist("min", 2), L(a=(3, 4), b=(0, 2)), F)
    check("nondelay", P(*AB, *W, con("ResourceNonDelay", "c", resource=R("w"))), L(a=(3, 4), b=(0, 2)), F)
    ir = P(var("a", min_duration=1, max_duration=2), worker("w"), req("a", "w"), con("ResourceInterrupted", "c", resource=R("w"), list_of_time_intervals=[(1, 2)]))
    check("interrupted-lengthens", ir, L(a=(0, 2), dur_a=2), T)     # 1 work + 1 interruption
    check("interrupted-too-short", ir, L(a=(0, 4), dur_a=4), F)     # max 2 + 1
    check("interrupted-starts-inside", P(var("a", max_duration=3), worker("w"), req("a", "w"),
                                         con("ResourceInterrupted", "c", resource=R("w"), list_of_time_intervals=[(1, 3)])), L(a=(2, 4), dur_a=2), F)
    # connectives
    x = {"$new": con("TaskStartAt", "n1", task=R("a"), value=0)}
    y = {"$new": con("TaskStartAt", "n2", task=R("b"), value=0)}
    check("xor-both", P(*AB, con("Xor", "c", constraint_1=x, constraint_2=y)), L(a=(0, 1), b=(0, 2)), F)
    check("or-both", P(*AB, con("Or", "c", list_of_constraints=[x, y])), L(a=(0, 1), b=(0, 2)), T)
    check("not", P(*AB, con("Not", "c", constraint=x)), L(a=(0, 1), b=(0, 2)), F)
    check("implies-false-cond", P(*AB, con("Implies", "c", condition=E(["==", ["start", "b"], 1]), list_of_constraints=[x])), L(a=(2, 3), b=(0, 2)), T)
    check("ite-else", P(*AB, con("IfThenElse", "c", condition=E(["==", ["start", "b"], 1]), then_list_of_constraints=[x], else_list_of_constraints=[y])),
          L(a=(2, 3), b=(0, 2)), T)
    check("optional-not-applied", P(*AB, con("TaskStartAt", "c", task=R("a"), value=3, optional=True)), L(a=(0, 1), b=(0, 2), ap_c=False), T)
    check("optional-applied", P(*AB, con("TaskStartAt", "c", task=R("a"), value=3, optional=True)), L(a=(0, 1), b=(0, 2), ap_c=True), F)
    # buffers
    bf = lambda cls, **kw: P(fixed("a", 1), fixed("b", 1), new(cls, "bf", name="bf", **kw), con("TaskUnloadBuffer", "u", task=R("a"), buffer=R("bf"), quantity=2),
                             con("TaskLoadBuffer", "l", task=R("b"), buffer=R("bf"), quantity=1))
    check("buffer-lower", bf("NonConcurrentBuffer", initial_level=1, lower_bound=0), L(a=(0, 1), b=(1, 2)), F)
    check("buffer-order-ok", bf("NonConcurrentBuffer", initial_level=1, lower_bound=0), L(a=(2, 3), b=(0, 1)), T)  # load at 1, unload at 2
    check("buffer-tie-nonconcurrent", bf("NonConcurrentBuffer", initial_level=2), L(a=(1, 2), b=(0, 1)), F)     # both at instant 1
    check("buffer-tie-concurrent", bf("ConcurrentBuffer", initial_level=1, lower_bound=0), L(a=(1, 2), b=(0, 1)), T)   # net -1 at instant 1
    check("buffer-final", bf("ConcurrentBuffer", initial_level=1, final_level=1), L(a=(1, 2), b=(0, 1)), F)
    # indicators
    v = ref.View(P(*AB, *W, new("IndicatorResourceUtilization", "i", resource=R("w")), H=7), L(a=(2, 3), b=(0, 2)))
    got = ref.indicator_values(v, v.dd["i"])
    if got != {42, 43}:
        FAILS.append(("utilisation 3/7", {42, 43}, got, None))
    v = ref.View(P(fixed("a", 2), worker("w", cost=lin_fn(1, 1)), req("a", "w"), new("IndicatorResourceCost", "i", list_of_resources=[R("w")])), L(a=(1, 3)))
    got = ref.indicator_values(v, v.dd["i"])
    if got != {6}:  # integral of t+1 over [1,3] = 6
        FAILS.append(("linear cost", {6}, got, None))
    v = ref.View(P(*AB, *W, new("IndicatorResourceIdle", "i", resource=R("w"))), L(a=(3, 4), b=(0, 2)))
    if ref.indicator_values(v, v.dd["i"]) != {1}:
        FAILS.append(("idle", {1}, ref.indicator_values(v, v.dd["i"]), None))
    for f in FAILS:
        print("FAIL", f)
    print(f"{'OK' if not FAILS else 'FAILED'}: reference truth tables")
    return 1 if FAILS else 0


if __name__ == "__main__":
    raise SystemExit(main())
