NOTES = ("All checks import the library from /repo at run time (VERIF_REPO overrides), explore a bounded space "
         "exhaustively against the real implementation and judge it with the Python reference model in psmc/ref.py. "
         "Known findings: known_findings.json. fix: commits in /repo are listed there as fixed entries.")
ENGINES = [
    {"name": "E1 schedule-space explorer", "path": "psmc/explore.py", "serves_properties": ["C01","C02","C03","C04","C05","C06","C08","C09","C10","C11","C14","C16","C19"],
     "kind_free_text": "explicit DFS over the full bounded box of primary unknowns on the real z3 solver object of the implementation; unsat prefixes prune sub-boxes"},
]
_T = "explicit-state enumeration of the bounded schedule box on the real solver object (DFS, pin/check/pop) vs. Python reference model"
CHECKS["C01"] = {"engine": "E1 schedule-space explorer", "technique": _T,
    "text": "every point of the box start,end in [-1,H+1] x duration x scheduled flags x free horizon of ~5000 (quick) task programs is either visited or refuted by the implementation's own assertion set under a pinned prefix; every admitted leaf must satisfy the task-timing clauses; 4 solver paths; plus the same programs built in two stages with a throw-away solve in between",
    "note": "trusts z3 on ground pinned queries, the task-timing reference clauses and the adapter (documented task unknowns); bounds: <=3 tasks, H<=6"}

_N = "trusts z3 on ground pinned queries, the reference clauses of psmc/ref.py (UNSPEC corners of DESIGN.md section 4 are not demanded) and the adapter (documented task unknowns plus the internal handles listed in psmc/explore.py); bounds: <=3 tasks (4 on cumulative workers), horizon <=8"
CHECKS["C02"] = {"engine": "E1 schedule-space explorer", "technique": _T,
    "text": "whole box of task times, durations, scheduled/selection flags AND the busy bounds of every assignment explored on ~950 (quick) resource programs (one/two workers, delays, dynamic, selections with every count/kind, cumulative sizes, productivity x work amount grids); every admitted leaf judged by no-overlap, declared span, count, capacity and work-amount clauses; plus two-stage builds (throw-away solver between two halves of the declarations)",
    "note": _N}
CHECKS["C03"] = {"engine": "E1 schedule-space explorer", "technique": _T,
    "text": "every task-constraint class x boundary parameter grid x optional subsets on 2-3 task scenes plus the interaction alphabet (task attributes x resource set-ups x one further element): every admitted leaf must satisfy the class clause (S) and every leaf the reference calls valid must be admitted (K: constraints naming an unscheduled optional task must not bind); plus two-stage builds",
    "note": _N}
CHECKS["C04"] = {"engine": "E1 schedule-space explorer", "technique": _T,
    "text": "every resource-constraint class x parameter grid (interval lists, bounds x kinds, distances x modes, periods x offsets x masks, two constraints of one class on one resource incl. two periodic ones of one period with different offsets / windows, Same/Distinct lists) on plain workers, selections and cumulative workers; every admitted leaf judged by the class clause; plus two-stage builds",
    "note": _N}
CHECKS["C05"] = {"engine": "E1 schedule-space explorer", "technique": "explicit enumeration of the bounded box by the Python reference; every VALID point looked up in the exhaustively explored admitted set of the real solver object",
    "text": "direction K over the union of the alphabets: every box point the reference calls VALID is admitted by the implementation (re-checked as a fully pinned leaf), the verdict of the real solve() agrees with the explored set, lost schedules are attributed to a 1-minimal culprit and confirmed through the public API in a fresh process",
    "note": _N}
CHECKS["C06"] = {"engine": "E1 schedule-space explorer", "technique": "explicit-state enumeration of the box of P and of P-without-U on the real solver objects; set comparison (deletion differential), reported view under pins",
    "text": "for ~2500 (quick) programs with optional tasks: S direction with the full reference, reported view of every admitted leaf that leaves a task unscheduled, and for every subset U the rules allow the admitted set restricted to exactly-U-unscheduled equals (as a set) the admitted set of the program with U deleted, with equal indicator values",
    "note": _N + "; task deletion is defined in props/C06.py delete_tasks"}

ENGINES += [
    {"name": "E2 controlled solver", "path": "psmc/ctl.py", "serves_properties": ["C07", "C12", "C13"],
     "kind_free_text": "z3.Solver / z3.Optimize subclasses substituted at the z3 API seam: stateless exploration of every model-choice sequence (every enabled candidate re-checked against the implementation's own assertion stack), injected `unknown`, virtual clock"},
    {"name": "E3 history explorer", "path": "psmc/history.py", "serves_properties": ["C12", "C13", "C14"],
     "kind_free_text": "enumeration of all call sequences up to a depth on one real SchedulingSolver (prefixes replayed on fresh objects), judged step by step by a protocol model over the E1-computed admitted set"},
    {"name": "E4/E5 artefact and constructor grids", "path": "props/C16.py props/C17.py props/C18.py", "serves_properties": ["C16", "C17", "C18"],
     "kind_free_text": "every reported solution of every admitted leaf of a corpus exported / rendered and re-read with independent parsers; full boundary-value product per constructor"},
]
_H = "A(P) from E1 (z3 trusted on pinned ground queries); steered models are re-checked against the implementation's own assertion stack; bounds in DESIGN.md section 8"
CHECKS["C07"] = {"engine": "E2 controlled solver", "technique": "stateless exploration of all model-choice sequences and interruption points of the real optimisation loop under a controlled solver; E1 enumeration for the optimum",
    "text": "for 33+ objective programs (every built-in objective, user-indicator objectives over every indicator kind, same-direction pairs incl. weight 0) the achievable objective values come from an exhaustive E1 box exploration; the real incremental loop is then executed for EVERY strictly improving chain of models, for every max_iter, with `unknown` injected at every check index, one slow check at every index (virtual clock) and growing costs, with the solver object created before the declarations, with weights assigned after construction; z3.Optimize and weighted sums are compared with best* (z3.Optimize is not judged for optimality on non-linear cost objectives: recorded finding)",
    "note": _H}
CHECKS["C08"] = {"engine": "E1 schedule-space explorer", "technique": _T + "; the indicator unknown is pinned to every value of a window around the reference value",
    "text": "for every admitted leaf of ~240 (quick) indicator programs (incl. costs over several busy intervals / several workers of odd doubled area, cost functions declared as objects with an attribute assigned after construction) the set of admitted indicator values must be non-empty and inside the reference tolerance set (determined and equal to the definition), the reported value too; targets/bounds judged as constraints in both directions",
    "note": _N}
CHECKS["C09"] = {"engine": "E1 schedule-space explorer", "technique": _T + " (time-ordered reference walk)",
    "text": "~1500 (quick) buffer programs (both classes, level/bound grids, every load/unload role assignment): the box contains every placement, hence every interleaving and tie; S and K against the reference walk, and the level sequence reported by solve() under pins for every admitted leaf",
    "note": _N}
CHECKS["C10"] = {"engine": "E1 schedule-space explorer", "technique": _T + " (Kleene truth tables)",
    "text": "~4600 (quick) formulas (all six connectives over an atom pool, all 36 outer x inner pairs at depth 2, referenced and inline operands, every constraint class once as an optional constraint, force-apply n x kind): admitted <=> formula true, both directions, applied flags as primaries",
    "note": _N}
CHECKS["C11"] = {"engine": "E1 schedule-space explorer", "technique": "explicit-state enumeration of the box; the real solve()/build_solution() executed under the pins of EVERY admitted leaf; field-by-field oracle",
    "text": "every admitted leaf of a corpus (all task types, workers, selections, cumulative workers, delays, dynamic, buffers, calendars, free horizon) is turned into the reported solution and checked: pins, duration, task view <=> resource view, implied assignment intervals, cumulative naming, unscheduled tasks, horizon, calendar arithmetic",
    "note": _N}
CHECKS["C12"] = {"engine": "E3 history explorer", "technique": "enumeration of call histories and of every z3 model order (E2) on the real solver object vs. a protocol model over A(P)",
    "text": "on 15+ bounded programs (incl. debug=True): solve + find_another_solution until failure under EVERY order in which the schedules can be delivered (<=4 timings) or every run with <=1-2 order deviations, plus all sequences of length <=3-4 over {another, another_for(v)}; distinct, valid, exhaustive, excluded value honoured, no exception",
    "note": _H}
CHECKS["C13"] = {"engine": "E3 history explorer", "technique": "enumeration of all call sequences up to depth 4-5 on one real SchedulingSolver vs. a protocol model over A(P)",
    "text": "all sequences over {initialize, export, solve, another, another_for(v)} on plain / infeasible / single- and two-objective programs under both optimisers and max_iter settings; every observation must be allowed by the protocol model (optimal when uninterrupted), the problem object must stay untouched and usable by a second solver; plus every history of 2-3 calls with ONE side activity (read-only report of the solver, another problem declared) inserted at every inner position; solvers built for a logic",
    "note": _H}
CHECKS["C14"] = {"engine": "E1 schedule-space explorer", "technique": "explicit-state enumeration of the box of every declaration-order permutation / renaming; set equality; earlier-activity sequences vs a fresh interpreter",
    "text": "all permutations inside each declaration stage (capped product, cap reported) and a family of collision-free renamings: admitted set, verdict and optimum (lexicographic vector under lex) must be identical; every sequence of <=2 earlier activities from a menu of 9 in the same interpreter must leave the target's admitted set, verdict and optimum equal to a fresh interpreter's (an exception of solve() is an outcome like the others)",
    "note": _N}
CHECKS["C15"] = {"engine": "E1 schedule-space explorer", "technique": "full enumeration of the 1600-point configuration product per program against E1 reference sets",
    "text": "optimizer x priority x parallel x random_values x debug x logics (None + 24) on 13 (quick) programs incl. free-horizon ones: every returned schedule is a member of A(P) with a matching objective value; definite verdicts and optima of LIA-covering logics agree with A(P) and best*",
    "note": _H + "; z3-internal threads (parallel=True) are not controlled"}
CHECKS["C16"] = {"engine": "E4/E5 artefact and constructor grids", "technique": "every reported solution of every admitted leaf exported and re-parsed; SMT-LIB export compared with the live solver over the whole E1 box",
    "text": "JSON / DataFrame / CSV / Excel exports of ~700 solutions (incl. compact JSON) re-read with json, csv, zipfile+XML and compared field by field; 110+ SMT-LIB exports parsed and explored over the whole box (same admitted set as the live solver, both optimisers); also from debug-mode solvers, the exploration of an export being cut off at four times the cost of the live one; JSON round trips of definitions; unscheduled tasks keep their row and have no bar in the Excel task view",
    "note": "the solution object is the reference (C11 covers it); z3's SMT-LIB parser trusted"}
CHECKS["C17"] = {"engine": "E4/E5 artefact and constructor grids", "technique": "every distinct reported solution of every admitted leaf rendered (Agg) in both modes; matplotlib artists inspected",
    "text": "bars (PolyCollection paths), labels (Text), tick labels and buffer lines (Line2D) of ~1700 (quick) solutions x 2 modes compared with the reported assignments, scheduled tasks, zero-length markers and buffer step functions; every rendering is done twice with the first figures left open and must produce one chart (two with buffers)",
    "note": "matplotlib artist geometry is taken as what is drawn; the solution object is the reference"}
CHECKS["C18"] = {"engine": "E4/E5 artefact and constructor grids", "technique": "full boundary-value product per constructor, each tuple built through the public API in a fresh problem",
    "text": "~800 tuples: every listed ill-formed case must raise at creation, every documented legal value (incl. boundaries) must be accepted and the problem must still initialise; every rejected single-element case is followed in the same problem by its well-formed variant under the same name (a rejected attempt leaves nothing behind); every program of the other checks' alphabets (~7000 in the quick tier) must build and initialise",
    "note": "the accept/reject predicate is transcribed from the property statement; unlisted corners are UNSPEC and only counted"}
CHECKS["C19"] = {"engine": "E1 schedule-space explorer", "technique": "E1 decides emptiness of the box; debug runs parsed; the named subset re-explored by E1",
    "text": "~950 (quick) programs, two thirds infeasible: every constraint named by the debug diagnosis is a constraint of the problem and the problem with ONLY the named constraints has an empty box (explored exhaustively); debug and plain verdicts agree; debug runs of feasible programs return members of A(P); the diagnosis of a second solve() on the same solver object, and of a plain and a second debug solver created on the same problem after a first debug solver was asked, is judged by the same rule; objectives next to the conflict under the incremental optimiser",
    "note": _N + "; the cell debug=True x optimizer='optimize' x infeasible is NOT explored (z3.Optimize unsat-core extraction kills long-lived interpreters; DESIGN 12.13)"}
