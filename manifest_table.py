NOTES = ("All checks import the library from /repo at run time (VERIF_REPO overrides), explore a bounded space "
         "exhaustively against the real implementation and judge it with the Python reference model in psmc/ref.py. "
         "Known findings: known_findings.json. fix: commits in /repo are listed there as fixed entries.")
ENGINES = [
    {"name": "E1 schedule-space explorer", "path": "psmc/explore.py", "serves_properties": ["C01"],
     "kind_free_text": "explicit DFS over the full bounded box of primary unknowns on the real z3 solver object of the implementation; unsat prefixes prune sub-boxes"},
]
_T = "explicit-state enumeration of the bounded schedule box on the real solver object (DFS, pin/check/pop) vs. Python reference model"
CHECKS["C01"] = {"engine": "E1 schedule-space explorer", "technique": _T,
    "text": "every point of the box start,end in [-1,H+1] x duration x scheduled flags x free horizon of ~5000 (quick) task programs is either visited or refuted by the implementation's own assertion set under a pinned prefix; every admitted leaf must satisfy the task-timing clauses; 4 solver paths",
    "note": "trusts z3 on ground pinned queries, the task-timing reference clauses and the adapter (documented task unknowns); bounds: <=3 tasks, H<=6"}
