NOTES = ("All checks import the library from /repo at run time (VERIF_REPO overrides), explore a bounded space "
         "exhaustively against the real implementation and judge it with the Python reference model in psmc/ref.py. "
         "Known findings: known_findings.json. fix: commits in /repo are listed there as fixed entries.")
ENGINES = [
    {"name": "E1 schedule-space explorer", "path": "psmc/explore.py", "serves_properties": ["C01","C02","C03","C04","C05","C06","C08","C09","C10","C11","C14","C16","C19"],
     "kind_free_text": "explicit DFS over the full bounded box of primary unknowns on the real z3 solver object of the implementation; unsat prefixes prune sub-boxes"},
]
_T = "explicit-state enumeration of the bounded schedule box on the real solver object (DFS, pin/check/pop) vs. Python reference model"
CHECKS["C01"] = {"engine": "E1 schedule-space explorer", "technique": _T,
    "text": "every point of the box start,end in [-1,H+1] x duration x scheduled flags x free horizon of ~5000 (quick) task programs is either visited or refuted by the implementation's own assertion set under a pinned prefix; every admitted leaf must satisfy the task-timing clauses; 4 solver paths",
    "note": "trusts z3 on ground pinned queries, the task-timing reference clauses and the adapter (documented task unknowns); bounds: <=3 tasks, H<=6"}

_N = "trusts z3 on ground pinned queries, the reference clauses of psmc/ref.py (UNSPEC corners of DESIGN.md section 4 are not demanded) and the adapter (documented task unknowns plus the internal handles listed in psmc/explore.py); bounds: <=3 tasks (4 on cumulative workers), horizon <=8"
CHECKS["C02"] = {"engine": "E1 schedule-space explorer", "technique": _T,
    "text": "whole box of task times, durations, scheduled/selection flags AND the busy bounds of every assignment explored on ~200 resource programs (one/two workers, delays, dynamic, selections with every count/kind, cumulative sizes, productivity x work amount grids); every admitted leaf judged by no-overlap, declared span, count, capacity and work-amount clauses",
    "note": _N}
CHECKS["C03"] = {"engine": "E1 schedule-space explorer", "technique": _T,
    "text": "every task-constraint class x boundary parameter grid x optional subsets on 2-3 task scenes: every admitted leaf must satisfy the class clause (S) and every leaf the reference calls valid must be admitted (K: constraints naming an unscheduled optional task must not bind)",
    "note": _N}
CHECKS["C04"] = {"engine": "E1 schedule-space explorer", "technique": _T,
    "text": "every resource-constraint class x parameter grid (interval lists, bounds x kinds, distances x modes, periods x offsets x masks, Same/Distinct lists) on plain workers, selections and cumulative workers; every admitted leaf judged by the class clause",
    "note": _N}
CHECKS["C05"] = {"engine": "E1 schedule-space explorer", "technique": "explicit enumeration of the bounded box by the Python reference; every VALID point looked up in the exhaustively explored admitted set of the real solver object",
    "text": "direction K over the union of the alphabets: every box point the reference calls VALID is admitted by the implementation (re-checked as a fully pinned leaf), the verdict of the real solve() agrees with the explored set, lost schedules are attributed to a 1-minimal culprit and confirmed through the public API in a fresh process",
    "note": _N}
CHECKS["C06"] = {"engine": "E1 schedule-space explorer", "technique": "explicit-state enumeration of the box of P and of P-without-U on the real solver objects; set comparison (deletion differential), reported view under pins",
    "text": "for ~900 programs with optional tasks: S direction with the full reference, reported view of every admitted leaf that leaves a task unscheduled, and for every subset U the rules allow the admitted set restricted to exactly-U-unscheduled equals (as a set) the admitted set of the program with U deleted, with equal indicator values",
    "note": _N + "; task deletion is defined in props/C06.py delete_tasks"}
