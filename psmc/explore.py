"""E1 - schedule-space explorer.

Explicit DFS over the full box of a program's primary unknowns.  Each transition pins one
unknown to one value on the REAL solver object of the implementation (push; add(v == c); check).
An `unsat` answer covers the whole sub-box below the prefix (monotone), `sat` descends, `unknown`
descends without pruning.  A leaf has every active primary concrete; it is *admitted* iff the
implementation's assertion set is satisfiable under all pins.
"""
import z3

from . import dsl


class Prim:
    __slots__ = ("key", "var", "dom", "owner", "is_bool", "cond")

    def __init__(self, key, var, dom, owner=None, cond=None):
        self.key = key
        self.var = var
        self.dom = dom
        self.owner = owner  # task id whose scheduled flag gates this primary (None = always active)
        self.cond = cond  # key of a boolean primary that must be True for this one to be active
        self.is_bool = isinstance(dom[0], bool)


def time_dom(H):
    return list(range(-1, H + 2))


def primaries(built, H=None, sel_prims=True, applied_prims=True, extra=None, dur_dom=None, busy_prims=False):
    """List the primary unknowns of a built program in exploration order."""
    program = built.program
    if H is None:
        H = program["H"]
    tdom = time_dom(H)
    ddom = dur_dom if dur_dom is not None else list(range(0, H + 2))
    prims = []
    tasks = dsl.tasks_of(program)
    # 1. scheduled flags
    for t in tasks:
        if t["args"].get("optional"):
            o = built.obj(t["id"])
            if not isinstance(o._scheduled, bool):
                prims.append(Prim(("sched", t["id"]), o._scheduled, [True, False]))
    optional_ids = {p.key[1] for p in prims}
    # 2. selection flags of user-declared selections that are required by a task
    reqs = dsl.reqs_of(program)
    dd = dsl.decl_by_id(program)
    if sel_prims:
        for (tid, rid, dyn, di, eo) in reqs:
            d = dd.get(rid)
            if d is not None and d["cls"] == "SelectWorkers":
                sel = built.obj(rid)
                for wref in d["args"]["list_of_workers"]:
                    wid = wref["$"]
                    prims.append(Prim(("sel", rid, wid), sel._selection_dict[built.obj(wid)], [True, False],
                                      owner=tid if tid in optional_ids else None))
    # 3. times
    for t in tasks:
        o = built.obj(t["id"])
        own = t["id"] if t["id"] in optional_ids else None
        prims.append(Prim(("start", t["id"]), o._start, tdom, own))
        if t["cls"] == "VariableDurationTask":
            prims.append(Prim(("dur", t["id"]), o._duration, ddom, own))
        prims.append(Prim(("end", t["id"]), o._end, tdom, own))
    # 4. dynamic busy bounds
    for (tid, rid, dyn, di, eo) in reqs:
        if dyn:
            d = dd.get(rid)
            if d is not None and d["cls"] == "Worker":
                bs, be = built.obj(rid)._busy_intervals[built.obj(tid)]
                own = tid if tid in optional_ids else None
                prims.append(Prim(("bs", tid, rid), bs, tdom, own))
                prims.append(Prim(("be", tid, rid), be, tdom, own))
    # 4b. on demand: the busy bounds of static and selected assignments as well (reported assignment intervals)
    if busy_prims:
        for (tid, rid, dyn, di, eo) in reqs:
            d = dd.get(rid)
            own = tid if tid in optional_ids else None
            if d is None or dyn:
                continue
            if d["cls"] == "Worker":
                bs, be = built.obj(rid)._busy_intervals[built.obj(tid)]
                prims.append(Prim(("bs", tid, rid), bs, tdom, own))
                prims.append(Prim(("be", tid, rid), be, tdom, own))
            elif d["cls"] == "SelectWorkers":
                for wref in d["args"]["list_of_workers"]:
                    wid = wref["$"]
                    if dd[wid]["cls"] != "Worker":
                        continue
                    bs, be = built.obj(wid)._busy_intervals[built.obj(tid)]
                    # only explored when the worker is selected (an unselected worker sits at an internal point)
                    prims.append(Prim(("bs", tid, wid), bs, tdom, own, cond=("sel", rid, wid)))
                    prims.append(Prim(("be", tid, wid), be, tdom, own, cond=("sel", rid, wid)))
    # 5. free horizon
    if program.get("horizon") is None:
        prims.append(Prim(("horizon",), built.pb._horizon, list(range(0, H + 2))))
    # 6. applied flags of optional constraints
    if applied_prims:
        for d in program["decls"]:
            if d["k"] == "new" and d["args"].get("optional") is True and d["cls"] not in dsl.TASK_CLS:
                o = built.obj(d["id"])
                if hasattr(o, "_applied") and not isinstance(o._applied, bool):
                    prims.append(Prim(("applied", d["id"]), o._applied, [True, False]))
    if extra:
        prims.extend(extra)
    return prims


class Stats:
    def __init__(self):
        self.nodes = 0
        self.checks = 0
        self.admitted = 0
        self.pruned_prefixes = 0
        self.unknown = 0
        self.unknown_leaves = 0


def explore(zsolver, prims, stats=None, max_checks=None):
    """Yield every admitted leaf as a dict key->value (inactive primaries absent)."""
    if stats is None:
        stats = Stats()
    n = len(prims)
    assign = {}
    last = [None]

    def active(p):
        if p.cond is not None and not assign.get(p.cond, False):
            return False
        return p.owner is None or assign.get(("sched", p.owner), True)

    def rec(i):
        while i < n and not active(prims[i]):
            i += 1
        if i == n:
            if last[0] == z3.unknown:
                stats.unknown_leaves += 1  # undecided: excluded from both directions
                return
            stats.admitted += 1
            yield dict(assign)
            return
        p = prims[i]
        for val in p.dom:
            if max_checks is not None and stats.checks >= max_checks:
                raise BudgetExceeded()
            zsolver.push()
            try:
                if p.is_bool:
                    zsolver.add(p.var if val else z3.Not(p.var))
                else:
                    zsolver.add(p.var == val)
                stats.checks += 1
                r = zsolver.check()
                if r == z3.unsat:
                    stats.pruned_prefixes += 1
                    continue
                if r == z3.unknown:
                    stats.unknown += 1
                stats.nodes += 1
                last[0] = r
                assign[p.key] = val
                yield from rec(i + 1)
                del assign[p.key]
            finally:
                zsolver.pop()

    # root check
    stats.checks += 1
    r = zsolver.check()
    if r == z3.unsat:
        stats.pruned_prefixes += 1
        return
    last[0] = r
    yield from rec(0)


class BudgetExceeded(Exception):
    pass


def pins_of(prims, leaf):
    """z3 assertions pinning a leaf."""
    out = []
    for p in prims:
        if p.key in leaf:
            v = leaf[p.key]
            if p.is_bool:
                out.append(p.var if v else z3.Not(p.var))
            else:
                out.append(p.var == v)
    return out


def admits(zsolver, prims, leaf):
    """Ask the implementation's assertion set about one fully pinned leaf."""
    zsolver.push()
    try:
        zsolver.add(*pins_of(prims, leaf))
        return zsolver.check()
    finally:
        zsolver.pop()


def leaf_key(leaf):
    return tuple(sorted(leaf.items(), key=lambda kv: repr(kv[0])))


def box_size(prims):
    """Number of points of the full box (with inactive dimensions of unscheduled tasks collapsed)."""
    sched = [p for p in prims if p.key[0] == "sched"]
    total = 0
    from itertools import product

    for combo in product([True, False], repeat=len(sched)):
        on = {p.key[1]: c for p, c in zip(sched, combo)}
        m = 1
        for p in prims:
            if p.key[0] == "sched" or p.cond is not None:
                continue  # (conditional dimensions are not counted: a lower bound of the box size)
            if p.owner is None or on.get(p.owner, True):
                m *= len(p.dom)
        total += m
    return total
