"""E2 - controlled solver: the environment explorer.

The library obtains its solver with z3.Solver(), z3.SolverFor(l) or z3.Optimize().  install() substitutes
subclasses at that seam.  They delegate everything to z3 and add
  * a log of add / push / pop / check calls,
  * model choice: at a satisfiable check() the environment may pick which of the *enabled* candidate
    schedules (each one re-checked against the current assertion stack) the library will see,
  * fault injection: `unknown` at chosen check indices (what a z3 timeout produces),
  * a virtual clock behind processscheduler.solver.time.perf_counter.
Every steered run is a run real z3 could produce: a candidate is only enabled if the implementation's own
assertion set is satisfiable under its pins.
"""
import time as _time

import z3

_RealSolver = z3.Solver
_RealOptimize = z3.Optimize


class Env:
    def __init__(self, choices=None, candidates=None, unknown_at=(), costs=None, default_cost=0.0, lazy=False):
        self.choices = list(choices or [])
        self.candidates = candidates  # list of (label, [z3 pins]) or None (no steering)
        self.lazy = lazy  # only determinism is wanted: take the first consistent candidate in canonical order
        self.unknown_at = set(unknown_at)
        self.costs = dict(costs or {})
        self.default_cost = default_cost
        self.now = 0.0
        self.check_index = 0
        self.points = []  # one entry per choice point: {"enabled": [labels], "chosen": i}
        self.log = []
        self.max_depth = 0
        self.depth = 0

    def next_choice(self, n_enabled):
        k = len(self.points)
        c = self.choices[k] if k < len(self.choices) else 0
        if c >= n_enabled:
            raise ReplayDivergence(f"choice {c} at point {k} but only {n_enabled} enabled")
        return c


class ReplayDivergence(Exception):
    pass


ENV = [None]


class _Mixin:
    def _ctl_init(self):
        self._steered = None
        self._forced_unknown = False

    def push(self):
        env = ENV[0]
        if env is not None:
            env.log.append(("push",))
            env.depth += 1
            env.max_depth = max(env.max_depth, env.depth)
        return super().push()

    def pop(self, *a):
        env = ENV[0]
        if env is not None:
            env.log.append(("pop",))
            env.depth -= 1
        return super().pop(*a)

    def add(self, *args):
        env = ENV[0]
        if env is not None:
            env.log.append(("add", len(args)))
        return super().add(*args)

    def check(self, *a):
        env = ENV[0]
        self._steered = None
        self._forced_unknown = False
        if env is None:
            return super().check(*a)
        idx = env.check_index
        env.check_index += 1
        env.now += env.costs.get(idx, env.default_cost)
        if idx in env.unknown_at:
            self._forced_unknown = True
            env.log.append(("check", idx, "unknown(injected)"))
            return z3.unknown
        r = super().check(*a)
        # under the controlled solver, time-outs are injected by the environment (unknown_at / virtual clock), never
        # produced by the machine: an `unknown` that real z3 gives on these small ground problems is a spurious
        # cancellation (timer thread firing late on an overloaded machine) and the check is simply asked again
        tries = 0
        while r == z3.unknown and tries < 3:
            tries += 1
            r = super().check(*a)
        if tries:
            env.real_unknowns = getattr(env, "real_unknowns", 0) + tries
        env.log.append(("check", idx, str(r)))
        if r == z3.sat and env.candidates is not None and isinstance(self, _RealOptimize):
            pass  # an optimising solver returns its optimum: never steered
        elif r == z3.sat and env.candidates is not None:
            enabled = []
            for (label, pins) in env.candidates:
                if env.lazy and enabled:
                    break
                super().push()
                super().add(*pins)
                rr = super().check()
                if rr == z3.sat:
                    enabled.append((label, super().model()))
                super().pop()
            if enabled:
                c = env.next_choice(len(enabled))
                env.points.append({"enabled": [e[0] for e in enabled], "chosen": c, "check": idx})
                self._steered = enabled[c][1]
                # restore the solver's own state to `sat` for callers that inspect it
            else:
                # no candidate is consistent (schedules outside the candidate set): hand back z3's own model
                env.points.append({"enabled": [], "chosen": 0, "check": idx})
                r = super().check(*a)
        return r

    def model(self):
        if self._steered is not None:
            return self._steered
        return super().model()

    def reason_unknown(self):
        if self._forced_unknown:
            return "timeout (injected)"
        return super().reason_unknown()


class CtlSolver(_Mixin, _RealSolver):
    def __init__(self, *a, **k):
        super().__init__(*a, **k)
        self._ctl_init()


class CtlOptimize(_Mixin, _RealOptimize):
    def __init__(self, *a, **k):
        super().__init__(*a, **k)
        self._ctl_init()


class _Clock:
    """Stands in for the `time` module inside processscheduler.solver."""

    def __getattr__(self, name):
        return getattr(_time, name)

    def perf_counter(self):
        env = ENV[0]
        if env is None:
            return _time.perf_counter()
        return env.now


_installed = [False]


def install():
    if _installed[0]:
        return
    _installed[0] = True
    import z3.z3 as zz
    import processscheduler.solver as pss

    z3.Solver = CtlSolver
    zz.Solver = CtlSolver
    z3.Optimize = CtlOptimize
    zz.Optimize = CtlOptimize
    pss.time = _Clock()


class use:
    """with ctl.use(Env(...)) as env: ..."""

    def __init__(self, env):
        self.env = env

    def __enter__(self):
        install()
        ENV[0] = self.env
        return self.env

    def __exit__(self, *a):
        ENV[0] = None
        return False


def explore_choices(run, bound=None, max_runs=None, root=None):
    """Stateless exploration of every choice sequence: run(choices) -> Env (with .points filled).
    Each execution goes to completion; prefixes are replayed on fresh objects by `run`.
    bound = maximal number of non-default (non-zero) choices per run (None = unbounded)."""
    stack = [list(root or [])]
    n = 0
    while stack:
        prefix = stack.pop()
        try:
            env = run(prefix)
        except ReplayDivergence:
            if prefix == list(root or []):
                return  # this root choice does not exist for the program
            raise
        n += 1
        yield prefix, env
        if max_runs is not None and n >= max_runs:
            return
        pts = env.points
        for i in range(len(prefix), len(pts)):
            used = sum(1 for c in [p["chosen"] for p in pts[:i]] if c)
            for alt in range(1, len(pts[i]["enabled"])):
                if bound is not None and used + 1 > bound:
                    continue
                stack.append([p["chosen"] for p in pts[:i]] + [alt])
