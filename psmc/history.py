"""E3 - history explorer: call sequences on ONE SchedulingSolver instance, judged by a protocol model.

A history is a list of events:
  ["initialize"], ["export"], ["solve"], ["another"], ["another_for", <dsl expr of a variable>]
run_history() replays it on a fresh problem/solver (live z3 objects cannot be copied), optionally under an
E2 environment that decides which enabled schedule z3 "returns" at every satisfiable check.
"""
import os
import tempfile

import z3

from . import boot, dsl, analysis, explore as ex, ctl, ref


def timing_of_leaf(program, leaf):
    out = []
    for t in dsl.tasks_of(program):
        tid = t["id"]
        if leaf.get(("sched", tid), True):
            out.append((tid, leaf[("start", tid)], leaf[("end", tid)], True))
        else:
            out.append((tid, None, None, False))
    return tuple(out)


def timing_of_solution(program, sol):
    out = []
    for t in dsl.tasks_of(program):
        ts = sol.tasks[t["args"]["name"]]
        if ts.scheduled:
            out.append((t["id"], ts.start, ts.end, True))
        else:
            out.append((t["id"], None, None, False))
    return tuple(out)


def var_value(program, timing, vexpr, horizon=None):
    """Value of a menu variable in a timing (None if the task is unscheduled)."""
    d = {t[0]: t for t in timing}
    k = vexpr[0]
    if k == "horizon":
        return horizon
    if k == "ind":
        # an indicator whose expression is the start / end of one task: the variable behind an objective
        e = dsl.decl_by_id(program)[vexpr[1]]["args"]["expression"]["$e"]
        return var_value(program, timing, e, horizon)
    t = d[vexpr[1]]
    if not t[3]:
        return None
    if k == "start":
        return t[1]
    if k == "end":
        return t[2]
    if k == "dur":
        return t[2] - t[1]
    raise ValueError(vexpr)


def z3var(built, vexpr):
    if vexpr[0] == "horizon":
        return built.pb._horizon
    if vexpr[0] == "ind":
        return built.obj(vexpr[1])._indicator_variable
    o = built.obj(vexpr[1])
    return {"start": o._start, "end": o._end, "dur": getattr(o, "_duration", None)}[vexpr[0]]


def admitted_set(program, solver_kw=None, prim_opts=None):
    """A(P) by E1 on a fresh object: list of leaves (dicts)."""
    built = dsl.build(program)
    solver = analysis.make_solver(built, solver_kw)
    prims = ex.primaries(built, **(prim_opts or {}))
    stats = ex.Stats()
    leaves = list(ex.explore(solver._solver, prims, stats))
    return leaves, stats, prims, built, solver


def candidates_for(built, prims, leaves):
    """E2 candidates: one per admitted leaf, pinned on the primaries of `built`."""
    return [(repr(sorted(l.items(), key=repr)), ex.pins_of(prims, l)) for l in leaves]


_RealZ3Solver = z3.Solver  # (the class as it is before psmc.ctl substitutes its controlled subclass)

SIDE_OPS = ("other_problem", "describe", "print_assertions", "print_statistics", "print_solution")


def tasks_of_program(program):
    return dsl.tasks_of(program)


def run_history(program, history, solver_kw=None, choices=None, leaves=None, unknown_at=(), costs=None, default_cost=0.0,
                steer=False):
    """Execute one history on a fresh solver. Returns (observations, env, solver, built)."""
    import processscheduler as ps

    ctl.install()
    built = dsl.build(program)
    kw = dict(solver_kw or {})
    kw.setdefault("max_time", 30)
    obs = []
    import contextlib
    fd2 = boot.no_fd2() if kw.get("debug") else contextlib.nullcontext()
    with fd2, boot.quiet(capture=True) as buf:
        solver = ps.SchedulingSolver(problem=built.pb, **kw)
        cands = None
        if steer and leaves is not None:
            prims = ex.primaries(built)
            cands = candidates_for(built, prims, leaves)
        env = ctl.Env(choices=choices, candidates=cands, unknown_at=unknown_at, costs=costs, default_cost=default_cost, lazy=(steer == "lazy"))
        with ctl.use(env):
            for ev in history:
                mark = len(buf.getvalue())
                try:
                    if ev[0] == "initialize":
                        r = solver.initialize()
                        o = {"ev": ev, "kind": "none"}
                    elif ev[0] == "export":
                        fd, path = tempfile.mkstemp(suffix=".smt2")
                        os.close(fd)
                        try:
                            solver.export_to_smt2(path)
                            o = {"ev": ev, "kind": "none", "bytes": os.path.getsize(path)}
                            try:
                                chk_ = _RealZ3Solver()
                                chk_.add(z3.parse_smt2_file(path))
                                o["export_sat"] = str(chk_.check())
                            except Exception as e_:
                                o["export_sat"] = f"unreadable: {type(e_).__name__}"
                        finally:
                            os.unlink(path)
                    elif ev[0] in SIDE_OPS:
                        # activities that must not touch what the solver knows: a read-only report of the solver,
                        # or another problem being declared in the same interpreter
                        if ev[0] == "other_problem":
                            first = tasks_of_program(program)[0]["args"]["name"] if tasks_of_program(program) else "a"
                            ps.SchedulingProblem(name="other_problem_declared_meanwhile")
                            ps.FixedDurationTask(name=first, duration=1)
                        elif ev[0] == "describe":
                            with boot.no_fd2(fds=(1, 2)):  # (z3 writes the parameter help on the C-level stdout)
                                solver.get_parameters_description()
                        else:
                            getattr(solver, ev[0])()
                        o = {"ev": ev, "kind": "none"}
                    elif ev[0] == "solve":
                        r = solver.solve()
                        o = _obs(program, ev, r)
                    elif ev[0] == "another":
                        r = solver.find_another_solution()
                        o = _obs(program, ev, r)
                    elif ev[0] == "another_for":
                        r = solver.find_another_solution_for_variable(z3var(built, ev[1]))
                        o = _obs(program, ev, r)
                    else:
                        raise ValueError(ev)
                except ctl.ReplayDivergence:
                    raise  # a choice sequence that does not exist: the explorer's business, not an observation
                except AssertionError as e:
                    o = {"ev": ev, "kind": "raise", "exc": "AssertionError", "msg": str(e)[:80]}
                except Exception as e:
                    o = {"ev": ev, "kind": "raise", "exc": type(e).__name__, "msg": str(e)[:120]}
                text = buf.getvalue()[mark:]
                o["said_unsat"] = "no solution exists" in text
                o["said_nobetter"] = "Can't find a better" in text
                obs.append(o)
    return obs, env, solver, built


def _obs(program, ev, r):
    if not r:
        return {"ev": ev, "kind": "false"}
    return {"ev": ev, "kind": "solution", "timing": timing_of_solution(program, r), "horizon": r.horizon,
            "indicators": dict(r.indicators)}


class Protocol:
    """Reference model of one solver object over the timings of A(P)."""

    def __init__(self, program, leaves, objective=None):
        self.program = program
        self.leaves = leaves
        self.timings = {}
        for l in leaves:
            self.timings.setdefault(timing_of_leaf(program, l), []).append(l)
        self.objective = objective  # None or (kind, fn(leaf)->value)
        self.B = set()
        self.X = []  # (vexpr, excluded value)
        self.cur = None  # current timing (of the last successful call)
        self.cur_h = None
        self.returned = []
        self.has_model = False
        self.inited = False
        self.dirty = False  # True once a call failed: the solver then holds clauses the model does not track

    def allowed(self):
        out = []
        for tm, ls in self.timings.items():
            if tm in self.B:
                continue
            for l in ls:
                if all(var_value(self.program, tm, v, l.get(("horizon",))) != val for (v, val) in self.X):
                    out.append((tm, l))
        return out

    def step(self, o):
        """Judge one observation; returns None if allowed, else a short reason."""
        ev = o["ev"]
        if ev[0] in SIDE_OPS:
            # no effect on the protocol state. Reports of a solver that has nothing to report yet may refuse
            # (get_parameters_description documents an AssertionError before initialisation; the print_* helpers
            # are unspecified there); once initialised / once a solution exists they must simply work
            if o["kind"] == "raise":
                ready = self.inited and (ev[0] != "print_solution" or self.has_model)
                if ev[0] == "other_problem" or ready:
                    return f"{ev[0]} raised {o['exc']}: {o['msg']}"
            return None
        if ev[0] in ("initialize", "export", "solve") or (ev[0] in ("another", "another_for") and self.has_model):
            self.inited = True
        if ev[0] in ("initialize", "export"):
            if o["kind"] != "none":
                return f"{ev[0]} -> {o['kind']} {o.get('exc', '')}"
            if ev[0] == "export" and o.get("export_sat") is not None and not self.dirty:
                # the file denotes what the solver would check next: satisfiable exactly when a schedule is left
                want = "sat" if self.allowed() else "unsat"
                if o["export_sat"] != want:
                    return f"export is {o['export_sat']} although the solver's constraint system is {want}"
            if ev[0] == "initialize":
                # an explicit initialize() builds a new z3 solver: earlier blocking clauses are not required to
                # survive it (C12 quantifies over solve/find_another* only); validity is still required
                self.B = set()
                self.X = []
            return None
        if ev[0] in ("another", "another_for") and not self.has_model:
            if o["kind"] == "raise" and o["exc"] == "AssertionError":
                return None
            return f"{ev[0]} before any solution must raise the documented AssertionError, got {o['kind']}"
        if o["kind"] == "raise":
            return f"{ev[0]} raised {o['exc']}: {o['msg']}"
        if ev[0] == "another":
            self.B.add(self.cur)
        elif ev[0] == "another_for":
            val = var_value(self.program, self.cur, ev[1], self.cur_h)
            if val is None:
                return "UNSPEC"
            self.X.append((ev[1], val))
        allowed = self.allowed()
        if o["kind"] == "false":
            if allowed:
                return f"{ev[0]} failed although {len(allowed)} valid schedule(s) remain, e.g. {allowed[0][0]}"
            return None
        tm = o["timing"]
        if tm not in self.timings:
            return f"{ev[0]} returned a schedule outside the admitted set: {tm}"
        ok = [l for (t2, l) in allowed if t2 == tm]
        if not ok:
            why = "blocked timing returned again" if tm in self.B else "excluded variable value returned"
            return f"{ev[0]}: {why}: {tm}"
        if self.objective is not None and ev[0] == "solve" and not o.get("interrupted"):
            kind, fn = self.objective
            vals = [fn(l) for (_t, l) in allowed]
            best = min(vals) if kind == "min" else max(vals)
            got = [fn(l) for l in ok]
            if best not in got:
                return f"solve returned objective {sorted(set(got))} but {best} is achievable"
        self.cur = tm
        self.cur_h = o.get("horizon")
        self.has_model = True
        self.returned.append(tm)
        return None

    def key(self):
        return (self.has_model, frozenset(self.B), tuple(sorted(map(repr, self.X))), self.cur)
