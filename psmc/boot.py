"""Process bootstrap: bind the harness to the library under check and own its nondeterminism.

Must be imported (and `boot()` called) before `processscheduler` is imported anywhere.
* the library is imported from VERIF_REPO (default /repo) - asserted on __file__;
* uuid.uuid4 is replaced by a counter (names of auxiliary unknowns only);
* stdout of the library (rich print) can be silenced / captured;
* z3's verbose output on fd 2 (debug mode) can be discarded.
"""
import io
import os
import sys
import uuid
import random
import contextlib

REPO = os.environ.get("VERIF_REPO", "/repo")
SEED = int(os.environ.get("VERIF_SEED", "0") or 0)

_counter = [0]
_real_uuid4 = uuid.uuid4


def _fake_uuid4():
    _counter[0] += 1
    # 128 bit value whose decimal and hex prefixes are both unique per call
    # top bits carry the counter: str(int)[:8] and hex[:8] are both unique for c < 2**20
    return uuid.UUID(int=(((1 << 20) + (_counter[0] % (1 << 20))) << 107) + _counter[0])


def reset_uuid():
    _counter[0] = 0


_booted = [False]


def boot():
    if _booted[0]:
        return
    _booted[0] = True
    if REPO not in sys.path:
        sys.path.insert(0, REPO)
    uuid.uuid4 = _fake_uuid4
    random.seed(SEED)
    os.environ.setdefault("MPLBACKEND", "Agg")
    import warnings

    warnings.filterwarnings("ignore")
    import processscheduler  # noqa

    real = os.path.realpath(processscheduler.__file__)
    want = os.path.realpath(os.path.join(REPO, "processscheduler", "__init__.py"))
    if real != want:
        raise SystemExit(f"harness error: processscheduler imported from {real}, expected {want}")
    # the library does `from uuid import uuid4` in base.py: patch the bound names too
    import processscheduler.base as _b

    _b.uuid4 = _fake_uuid4


class _Null(io.TextIOBase):
    def write(self, s):
        return len(s)

    def flush(self):
        pass


@contextlib.contextmanager
def quiet(capture=False):
    """Silence (or capture) what the library prints on stdout."""
    old = sys.stdout
    buf = io.StringIO() if capture else _Null()
    sys.stdout = buf
    try:
        yield buf
    finally:
        sys.stdout = old


@contextlib.contextmanager
def no_fd2(fds=(2,)):
    """Discard what z3 writes on fd 2 in verbose/debug mode (fds=(1, 2): on fd 1 as well)."""
    sys.stderr.flush()
    sys.__stdout__.flush()
    saved = [(fd, os.dup(fd)) for fd in fds]
    dn = os.open(os.devnull, os.O_WRONLY)
    for fd in fds:
        os.dup2(dn, fd)
    os.close(dn)
    try:
        yield
    finally:
        for fd, sv in saved:
            os.dup2(sv, fd)
            os.close(sv)
