"""psmc - bounded explicit-state checking of ProcessScheduler (see /verif/DESIGN.md)."""
