"""Runner: process pool, violation grouping, known findings, public-API replays, evidence."""
import hashlib
import json
import multiprocessing as mp
import os
import subprocess
import sys
import time

from . import boot

VERIF = os.path.dirname(os.path.dirname(os.path.abspath(__file__)))
PY = sys.executable


def jdump(o):
    return json.dumps(o, sort_keys=True, default=_jd)


def _jd(o):
    if isinstance(o, (set, frozenset)):
        return sorted(o, key=repr)
    if isinstance(o, tuple):
        return list(o)
    return repr(o)


def digest(o):
    return hashlib.sha1(jdump(o).encode()).hexdigest()[:12]


# --------------------------------------------------------------------------- pool
def _init():
    boot.boot()
    sys.stdout = boot._Null()


def _wrap(args):
    func, item = args
    try:
        return ("ok", func(item))
    except Exception as e:  # harness or library error: reported by the caller, never swallowed
        import traceback

        return ("err", {"item": item, "error": f"{type(e).__name__}: {e}", "tb": traceback.format_exc()[-1500:]})


def pmap(func, items, procs=None, chunk=1):
    """Ordered parallel map over a fork pool; func must be a module-level function.
    A worker that dies (segfault, kill) or a job that exceeds VERIF_JOB_TIMEOUT is reported as an error for that
    item and the pool is rebuilt for the remaining items - the check never hangs on it."""
    from concurrent.futures import ProcessPoolExecutor, TimeoutError as FTimeout
    from concurrent.futures.process import BrokenProcessPool

    items = list(items)
    if procs is None:
        procs = min(int(os.environ.get("VERIF_PROCS", "16")), max(1, len(items)))
    if procs <= 1 or len(items) <= 1:
        _init_local()
        for it in items:
            yield _wrap((func, it))
        return
    job_timeout = float(os.environ.get("VERIF_JOB_TIMEOUT", "3000"))
    ctx = mp.get_context("fork")
    pos = 0
    while pos < len(items):
        ex = ProcessPoolExecutor(max_workers=procs, mp_context=ctx, initializer=_init)
        futs = [ex.submit(_wrap, (func, it)) for it in items[pos:]]
        broken = False
        try:
            for f in futs:
                try:
                    r = f.result(timeout=job_timeout)
                except BrokenProcessPool:
                    r = ("err", {"item": _short(items[pos]), "error": "worker process died"})
                    broken = True
                except FTimeout:
                    r = ("err", {"item": _short(items[pos]), "error": f"job exceeded {job_timeout}s"})
                    broken = True
                pos += 1
                yield r
                if broken:
                    break
        finally:
            if broken:
                for f in futs:
                    f.cancel()
                for p_ in list(getattr(ex, "_processes", {}).values()):
                    try:
                        p_.kill()
                    except Exception:
                        pass
            ex.shutdown(wait=not broken, cancel_futures=True)


def _short(item):
    s = jdump(item)
    return s if len(s) < 600 else s[:600] + "..."


def _init_local():
    boot.boot()


# --------------------------------------------------------------------------- known findings
def load_findings(pid):
    path = os.path.join(VERIF, "known_findings.json")
    if not os.path.exists(path):
        return []
    with open(path) as f:
        data = json.load(f)
    return [e for e in data.get("findings", []) if e["property"] == pid]


def sig_matches(match, sig):
    for k, want in match.items():
        got = sig.get(k)
        if isinstance(want, dict) and "any" in want:
            if got not in want["any"]:
                return False
        elif got != want:
            return False
    return True


# --------------------------------------------------------------------------- the check object
class Check:
    def __init__(self, pid, tier, rule, level="model_checking"):
        self.pid = pid
        self.tier = tier
        self.rule = rule
        self.level = level
        self.t0 = time.time()
        self.cov = {"states": 0, "transitions": 0, "traces_validated_against_impl": 0, "evaluations": 0,
                    "distinct_nontrivial": 0, "programs": 0, "admitted_leaves": 0, "unknown_leaves": 0,
                    "ref_valid": 0, "ref_invalid": 0, "ref_unspec": 0, "public_api_replays": 0}
        self.samples = []
        self.groups = {}  # signature key -> {"sig":..., "count":..., "instances":[...]}
        self.errors = []
        self.caps = []
        self.families = {}
        self.notes = []
        self.assumptions = []
        self.exhaustive = True
        self.extra = {}

    # ---- accumulation
    def add(self, **kw):
        for k, v in kw.items():
            self.cov[k] = self.cov.get(k, 0) + v

    def family(self, name, **kw):
        f = self.families.setdefault(name, {})
        for k, v in kw.items():
            f[k] = f.get(k, 0) + v

    def sample(self, s, cap=6):
        if len(self.samples) < cap:
            self.samples.append(s)

    def violation(self, sig, instance):
        key = jdump(sig)
        g = self.groups.setdefault(key, {"sig": sig, "count": 0, "instances": []})
        g["count"] += 1
        size = len(jdump(instance))
        g["instances"].append((size, jdump(instance)))
        g["instances"].sort()
        del g["instances"][3:]

    def error(self, e):
        self.errors.append(e)

    def cap(self, text):
        self.caps.append(text)
        self.exhaustive = False

    # ---- finish
    def finish(self, confirm=None, witness_runner=None):
        """confirm(instance) -> (bool confirmed, observation) re-executes one instance through the
        public API in a fresh interpreter. witness_runner(entry) -> bool (still failing)."""
        findings = load_findings(self.pid)
        known = [e for e in findings if e.get("status", "known") == "known"]
        out_lines = []
        n_viol = 0
        known_seen = {}
        unconfirmed = []
        todo = []
        for key, g in sorted(self.groups.items()):
            sig = g["sig"]
            hit = next((e for e in known if sig_matches(e["match"], sig)), None)
            if hit is not None:
                k = known_seen.setdefault(hit["id"], {"instances": 0, "signatures": 0})
                k["instances"] += g["count"]
                k["signatures"] += 1
                continue
            todo.append(g)

        def confirm_group(g):
            # an unlisted signature: confirm on its smallest instances through the public API
            tries = []
            for (_sz, inst_s) in g["instances"]:
                inst = json.loads(inst_s)
                if confirm is None:
                    return inst, tries
                try:
                    ok, obs = confirm(inst)
                except Exception as ex:  # a replay that cannot run is a harness problem
                    ok, obs = False, {"error": repr(ex)}
                tries.append(obs)
                if ok:
                    inst["replay_observation"] = obs
                    return inst, tries
            return None, tries

        from concurrent.futures import ThreadPoolExecutor

        with ThreadPoolExecutor(max_workers=8) as tp:
            results = list(tp.map(confirm_group, todo))
        # a replay that failed for a reason of its own (time-out of the fresh interpreter on a loaded machine) is
        # repeated once, alone, before the disagreement is called unconfirmed
        results = [(r if r[0] is not None or not any(isinstance(t, dict) and t.get("error") for t in r[1]) else confirm_group(g))
                   for g, r in zip(todo, results)]
        for g, (confirmed, tries) in zip(todo, results):
            self.cov["public_api_replays"] += len(tries)
            if confirmed is None:
                unconfirmed.append({"sig": g["sig"], "observation": tries[-1] if tries else None})
                continue
            n_viol += 1
            path = self._write_replay(g["sig"], confirmed, g["count"])
            out_lines.append(f"VIOLATION property={self.pid} replay={path}")
        # known findings: re-execute the stored witness; print only if it still fails
        for e in known:
            still = True
            if witness_runner is not None and e.get("witness") is not None:
                try:
                    still = bool(witness_runner(e))
                except Exception as ex:  # a witness that cannot run is a harness problem
                    self.error({"witness": e["id"], "error": repr(ex)})
                    still = False
            if still:
                out_lines.append(f"KNOWN-FINDING: property={self.pid} {e['id']}: {e['text']}")
            seen = known_seen.get(e["id"])
            if seen:
                seen["witness_still_fails"] = still
        if unconfirmed:
            self.extra["unconfirmed_disagreements"] = unconfirmed[:10]
            # a disagreement that the public API does not reproduce is a harness problem
            self.errors.append({"unconfirmed_disagreements": len(unconfirmed), "first": unconfirmed[0]})
        self._write_evidence(n_viol, known_seen)
        for l in out_lines:
            print(l)
        if self.errors:
            print(f"HARNESS-ERROR property={self.pid} n={len(self.errors)} first={jdump(self.errors[0])[:600]}",
                  file=sys.stderr)
        st = "capped" if self.caps else "complete"
        print(f"[{self.pid}] tier={self.tier} {st} programs={self.cov['programs']} states={self.cov['states']} "
              f"transitions={self.cov['transitions']} admitted={self.cov['admitted_leaves']} "
              f"violations={n_viol} known={len(known_seen)} wall={time.time() - self.t0:.1f}s")
        if n_viol:
            return 1
        if self.errors:
            return 2
        return 0

    def _write_replay(self, sig, inst, count):
        d = os.path.join(os.environ.get("VERIF_REPLAY_DIR") or os.path.join(VERIF, "replays"), self.pid)
        os.makedirs(d, exist_ok=True)
        art = {"property": self.pid, "signature": sig, "instances_with_this_signature": count, "instance": inst}
        path = os.path.join(d, digest(art) + ".json")
        with open(path, "w") as f:
            json.dump(art, f, indent=1, sort_keys=True, default=_jd)
        if inst.get("standalone"):
            with open(path[:-5] + ".py", "w") as f:
                f.write(inst["standalone"])
        return path

    def _write_evidence(self, n_viol, known_seen):
        cov = dict(self.cov)
        cov["rule"] = self.rule
        cov["samples"] = self.samples or [{"note": "no sample recorded"}]
        cov["exhaustive"] = bool(self.exhaustive and not self.errors)
        cov["caps_hit"] = self.caps
        cov["families"] = self.families
        cov["known_findings_seen"] = known_seen
        cov["harness_errors"] = self.errors[:5]
        cov["violation_signatures"] = [g["sig"] for g in self.groups.values()][:40]
        cov.update(self.extra)
        ev = {"property_id": self.pid, "tier": self.tier, "seed": boot.SEED, "level": self.level,
              "coverage": cov, "assumptions": self.assumptions, "wall_s": round(time.time() - self.t0, 2),
              "violations": n_viol}
        d = os.environ.get("VERIF_EVIDENCE_DIR") or os.path.join(VERIF, "evidence")
        os.makedirs(d, exist_ok=True)
        with open(os.path.join(d, f"{self.pid}.json"), "w") as f:
            json.dump(ev, f, indent=1, sort_keys=True, default=_jd)


# --------------------------------------------------------------------------- fresh-process replay (route B)
def fresh_replay(payload, timeout=900):
    """Run psmc.replay in a fresh interpreter, twice; the two observations must be identical."""
    obs = []
    for _ in range(2):
        env = dict(os.environ, PYTHONHASHSEED="0")
        p = subprocess.run([PY, "-m", "psmc.replay"], input=jdump(payload), capture_output=True, text=True,
                           cwd=VERIF, env=env, timeout=timeout)
        if p.returncode != 0:
            return None, {"error": p.stderr[-800:]}
        obs.append(json.loads(p.stdout.strip().splitlines()[-1]))
    if obs[0] != obs[1]:
        return None, {"error": "replay not deterministic", "obs": obs}
    return obs[0], None
