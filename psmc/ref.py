"""Reference model: the documented meaning of every model element, over concrete integers.

Written from docs/*.md, docstrings and the property statements - never from the encoders.
Three-valued: True (VALID), False (INVALID), None (UNSPEC: documentation silent/ambiguous).
`clauses(program, leaf)` returns a list of (decl_id, cls, clause_name, verdict, info).
"""
from . import dsl

V, I, U = True, False, None


# --------------------------------------------------------------------------- Kleene logic
def k_not(a):
    return None if a is None else (not a)


def k_and(vals):
    vals = list(vals)
    if any(v is False for v in vals):
        return False
    if any(v is None for v in vals):
        return None
    return True


def k_or(vals):
    vals = list(vals)
    if any(v is True for v in vals):
        return True
    if any(v is None for v in vals):
        return None
    return False


def k_xor(a, b):
    if a is None or b is None:
        return None
    return a != b


def k_implies(a, b):
    return k_or([k_not(a), b])


def k_ite(c, a, b):
    if c is None:
        if a is not None and a == b:
            return a
        return None
    return a if c else b


# --------------------------------------------------------------------------- view of a leaf
class View:
    def __init__(self, program, leaf):
        program = dsl.effective(program)
        self.program = program
        self.leaf = leaf
        self.dd = dsl.decl_by_id(program)
        self.tasks = {t["id"]: t for t in dsl.tasks_of(program)}
        self.sched = {}
        self.start, self.end, self.dur = {}, {}, {}
        for tid, t in self.tasks.items():
            s = leaf.get(("sched", tid), True)
            self.sched[tid] = s
            if s:
                self.start[tid] = leaf.get(("start", tid))
                self.end[tid] = leaf.get(("end", tid))
                if t["cls"] == "VariableDurationTask":
                    self.dur[tid] = leaf.get(("dur", tid))
                elif t["cls"] == "FixedDurationTask":
                    self.dur[tid] = t["args"]["duration"]
                else:
                    self.dur[tid] = 0
        self.horizon = program.get("horizon")
        if self.horizon is None:
            self.horizon = leaf.get(("horizon",))
        self.reqs = dsl.reqs_of(program)
        self._busy = None

    # selection flag of worker wid in selection sid (None when not explored: owner unscheduled)
    def selected(self, sid, wid):
        return self.leaf.get(("sel", sid, wid))

    def sel_owner(self, sid):
        for (tid, rid, *_r) in self.reqs:
            if rid == sid:
                return tid
        return None

    def busy(self):
        """worker id -> [(task, bs, be, kind)], cumulative id -> [(task, s, e)]; actual assignments only."""
        if self._busy is not None:
            return self._busy
        wb, cb = {}, {}
        for d in dsl.decls_of(self.program, "Worker"):
            wb[d["id"]] = []
        for d in dsl.decls_of(self.program, "CumulativeWorker"):
            cb[d["id"]] = []
        for (tid, rid, dyn, di, eo) in self.reqs:
            if not self.sched[tid]:
                continue
            s, e = self.start[tid], self.end[tid]
            d = self.dd[rid]
            if d["cls"] == "Worker":
                if dyn:
                    wb[rid].append((tid, self.leaf.get(("bs", tid, rid)), self.leaf.get(("be", tid, rid)), "dyn"))
                else:
                    wb[rid].append((tid, s + di, e - eo, "static"))
            elif d["cls"] == "CumulativeWorker":
                cb[rid].append((tid, s, e))
            elif d["cls"] == "SelectWorkers":
                for wref in d["args"]["list_of_workers"]:
                    wid = wref["$"]
                    if self.selected(rid, wid):
                        if self.dd[wid]["cls"] == "Worker":
                            wb[wid].append((tid, s, e, "sel"))
                        else:
                            cb[wid].append((tid, s, e))
        self._busy = (wb, cb)
        return self._busy


def overlap_len(a0, a1, b0, b1):
    return max(0, min(a1, b1) - max(a0, b0))


def interval_conflict(bs, be, lo, hi):
    """busy [bs,be) against a forbidden window [lo,hi): True conflict / False none / None unspecified."""
    if be < bs:
        return None
    if be == bs:
        if lo < bs < hi:
            return None  # zero-length strictly inside: unspecified
        return False
    return overlap_len(bs, be, lo, hi) > 0


# --------------------------------------------------------------------------- expressions
def ev(view, a):
    """Evaluate a DSL expression on a leaf. Returns int/bool or None (references an absent value)."""
    if isinstance(a, (bool, int)):
        return a
    op = a[0]
    if op in ("start", "end", "dur"):
        tid = a[1]
        if not view.sched[tid]:
            return None
        return {"start": view.start, "end": view.end, "dur": view.dur}[op].get(tid)
    if op == "sched":
        return view.sched[a[1]]
    if op == "horizon":
        return view.leaf.get(("horizon",))  # the horizon unknown; None when existential
    if op == "sel":
        return view.selected(a[1], a[2])
    if op == "applied":
        return view.leaf.get(("applied", a[1]), True)
    if op == "bool":
        return bool(a[1])
    if op in ("+", "-", "*", "==", "!=", "<", "<=", ">", ">="):
        x, y = ev(view, a[1]), ev(view, a[2])
        if x is None or y is None:
            return None
        return {"+": x + y, "-": x - y, "*": x * y, "==": x == y, "!=": x != y, "<": x < y, "<=": x <= y,
                ">": x > y, ">=": x >= y}[op]
    if op == "and":
        return k_and(ev(view, x) for x in a[1:])
    if op == "or":
        return k_or(ev(view, x) for x in a[1:])
    if op == "not":
        return k_not(ev(view, a[1]))
    if op == "xor":
        return k_xor(ev(view, a[1]), ev(view, a[2]))
    if op == "implies":
        return k_implies(ev(view, a[1]), ev(view, a[2]))
    if op == "ite":
        c = ev(view, a[1])
        if c is None:
            return None
        return ev(view, a[2]) if c else ev(view, a[3])
    raise ValueError(a)


def _cmp(kind, x, n):
    return {"exact": x == n, "min": x >= n, "max": x <= n}[kind]


# --------------------------------------------------------------------------- task rules (C01)
def task_clauses(view, out):
    for tid, t in view.tasks.items():
        if not view.sched[tid]:
            continue
        a = t["args"]
        s, e, d = view.start[tid], view.end[tid], view.dur[tid]
        cls = t["cls"]
        out.append((tid, cls, "start>=0", s >= 0, None))
        if view.horizon is not None:
            out.append((tid, cls, "end<=horizon", e <= view.horizon, None))
        out.append((tid, cls, "end-start==duration", e - s == d, None))
        if cls == "VariableDurationTask":
            ok = d >= a.get("min_duration", 0)
            if a.get("max_duration") is not None:
                ok = ok and d <= a["max_duration"]
            if a.get("allowed_durations") is not None:
                ok = ok and d in a["allowed_durations"]
            out.append((tid, cls, "duration-in-range", ok, None))
        if a.get("release_date") is not None:
            out.append((tid, cls, "start>=release", s >= a["release_date"], None))
        if a.get("due_date") is not None and a.get("due_date_is_deadline", True):
            out.append((tid, cls, "end<=deadline", e <= a["due_date"], None))


# --------------------------------------------------------------------------- resources (C02)
def resource_clauses(view, out):
    wb, cb = view.busy()
    dd = view.dd
    # dynamic / static spans
    for wid, lst in wb.items():
        for (tid, bs, be, kind) in lst:
            if kind == "dyn":
                s, e = view.start[tid], view.end[tid]
                out.append((wid, "Worker", "dynamic-span-inside-task", s <= bs <= be <= e, {"task": tid}))
    # pinned busy bounds of static / selected assignments must be the interval the requirement implies
    for (tid, rid, dyn, di, eo) in view.reqs:
        if dyn or not view.sched[tid]:
            continue
        d = dd[rid]
        s, e = view.start[tid], view.end[tid]
        if d["cls"] == "Worker" and ("bs", tid, rid) in view.leaf:
            got = (view.leaf[("bs", tid, rid)], view.leaf[("be", tid, rid)])
            v = got == (s + di, e - eo)
            if di + eo > e - s:
                v = None
            out.append((rid, "Worker", "static-span-as-declared", v, {"task": tid, "delay": bool(di or eo)}))
        elif d["cls"] == "SelectWorkers":
            for wref in d["args"]["list_of_workers"]:
                wid = wref["$"]
                if view.selected(rid, wid) and ("bs", tid, wid) in view.leaf:
                    got = (view.leaf[("bs", tid, wid)], view.leaf[("be", tid, wid)])
                    out.append((wid, "Worker", "selected-span-is-task-span", got == (s, e), {"task": tid}))
    # delay_in + early_out larger than the duration: unspecified
    for (tid, rid, dyn, di, eo) in view.reqs:
        if view.sched[tid] and (di or eo) and di + eo > view.end[tid] - view.start[tid]:
            out.append((rid, "Worker", "delay-exceeds-duration", None, {"task": tid}))
    # pairwise non-overlap per worker
    for wid, lst in wb.items():
        verdict = True
        for i in range(len(lst)):
            for k in range(i + 1, len(lst)):
                _, s1, e1, _k1 = lst[i]
                _, s2, e2, _k2 = lst[k]
                if e1 < s1 or e2 < s2:
                    v = None
                elif e1 == s1 and s2 < s1 < e2:
                    v = None
                elif e2 == s2 and s1 < s2 < e1:
                    v = None
                else:
                    v = overlap_len(s1, e1, s2, e2) == 0
                verdict = k_and([verdict, v])
        if len(lst) > 1:
            out.append((wid, "Worker", "no-overlap", verdict, None))
    # cumulative capacity at every instant
    for cid, lst in cb.items():
        size = dd[cid]["args"]["size"]
        ok = True
        pts = sorted({s for _, s, e in lst})
        for t in pts:
            n = sum(1 for _, s, e in lst if s <= t < e)
            if n > size:
                ok = False
            # zero-length tasks strictly inside busy intervals of every unit: unspecified
            nz = sum(1 for _, s, e in lst if s == e == t)
            if ok and nz and n + nz > size and any(s < t < e for _, s, e in lst):
                ok = None
        if lst:
            out.append((cid, "CumulativeWorker", "capacity", ok, None))
    # selections: count rule (only when explored)
    for d in dsl.decls_of(view.program, "SelectWorkers"):
        sid = d["id"]
        flags = [view.selected(sid, w["$"]) for w in d["args"]["list_of_workers"]]
        if any(f is None for f in flags):
            continue
        n = sum(1 for f in flags if f)
        out.append((sid, "SelectWorkers", "count-" + d["args"].get("kind", "exact"),
                    _cmp(d["args"].get("kind", "exact"), n, d["args"].get("nb_workers_to_select", 1)), None))
    # work amount
    for tid, t in view.tasks.items():
        wa = t["args"].get("work_amount", 0)
        if not wa or not view.sched[tid]:
            continue
        total, any_res, unspec = 0, False, False
        for (t2, rid, dyn, di, eo) in view.reqs:
            if t2 != tid:
                continue
            any_res = True
            d = dd[rid]
            if d["cls"] == "CumulativeWorker":
                # how the declared productivity splits over the unit workers is not documented; the declared
                # productivity times the busy time is what the cumulative worker can contribute at most
                unspec = True
                total += d["args"].get("productivity", 1) * (view.end[tid] - view.start[tid])
            elif d["cls"] == "SelectWorkers" and any(dd[w["$"]]["cls"] != "Worker" for w in d["args"]["list_of_workers"]):
                unspec = True
                total += 10 ** 6
        for wid, lst in wb.items():
            for (t2, bs, be, kind) in lst:
                if t2 == tid:
                    if be < bs:
                        unspec = True
                        total += 10 ** 6
                    total += dd[wid]["args"].get("productivity", 1) * (be - bs)
        if any_res and unspec:
            # only the necessary condition is demanded
            out.append((tid, t["cls"], "work-amount-upper-bound", False if total < wa else None, None))
            continue
        if any_res:
            out.append((tid, t["cls"], "work-amount", None if unspec else total >= wa, None))


# --------------------------------------------------------------------------- constraints (C03, C04, C10)
def _t(view, ref):
    return ref["$"]


def con_verdict(view, d):
    """Meaning of one constraint declaration (ignoring its own optional/applied flag)."""
    cls, a = d["cls"], d["args"]
    f = _CON.get(cls)
    if f is None:
        return None
    return f(view, a)


def _single(view, a, rel):
    tid = a["task"]["$"]
    if not view.sched[tid]:
        return True
    val = a["value"]
    if isinstance(val, dict):
        val = ev(view, val["$e"])
        if val is None:
            return None
    return rel(view.start[tid], view.end[tid], val)


def c_start_at(view, a):
    return _single(view, a, lambda s, e, v: s == v)


def c_end_at(view, a):
    return _single(view, a, lambda s, e, v: e == v)


def c_start_after(view, a):
    strict = a.get("kind", "lax") == "strict"
    return _single(view, a, lambda s, e, v: s > v if strict else s >= v)


def c_end_before(view, a):
    strict = a.get("kind", "lax") == "strict"
    return _single(view, a, lambda s, e, v: e < v if strict else e <= v)


def _group_bounds(view, gid):
    """A task group used as an operand of a precedence: its start / end are auxiliary unknowns, the start at or
    before every scheduled member (and inside the window), the end at or after. Returns (start range, end range) as
    (lo, hi) pairs with None for unbounded, or None when no member is scheduled."""
    ga = view.dd[gid]["args"]
    ts = [r["$"] for r in ga["list_of_tasks"] if view.sched[r["$"]]]
    if not ts:
        return None
    mins, maxe = min(view.start[t] for t in ts), max(view.end[t] for t in ts)
    if ga.get("time_interval") is not None:
        a_, b_ = ga["time_interval"]
        return (a_, mins), (maxe, b_)
    if ga.get("time_interval_length") is not None:
        return (maxe - ga["time_interval_length"], mins), (maxe, mins + ga["time_interval_length"])
    return (None, mins), (maxe, None)


def c_precedence(view, a):
    b, f = a["task_before"]["$"], a["task_after"]["$"]
    off = a.get("offset", 0)
    k = a.get("kind", "lax")
    gb = view.dd[b]["cls"] in ("UnorderedTaskGroup", "OrderedTaskGroup")
    gf = view.dd[f]["cls"] in ("UnorderedTaskGroup", "OrderedTaskGroup")
    if gb or gf:
        if gb and gf:
            return None
        if gb:
            if not view.sched[f]:
                return True
            rng = _group_bounds(view, b)
            if rng is None:
                return True
            lo, hi = rng[1]  # the group's end may be anything from the last member's end up to the window's end
            x = view.start[f] - off  # lax: some end <= x ; strict: some end < x ; tight: x is a possible end
            if hi is not None and hi < lo:
                return None
            return lo <= x if k == "lax" else lo < x if k == "strict" else (lo <= x and (hi is None or x <= hi))
        if not view.sched[b]:
            return True
        rng = _group_bounds(view, f)
        if rng is None:
            return True
        lo, hi = rng[0]  # the group's start: from the window's start up to the first member's start
        x = view.end[b] + off
        if lo is not None and hi < lo:
            return None
        return x <= hi if k == "lax" else x < hi if k == "strict" else (x <= hi and (lo is None or lo <= x))
    if not (view.sched[b] and view.sched[f]):
        return True
    lo = view.end[b] + off
    up = view.start[f]
    return lo <= up if k == "lax" else lo < up if k == "strict" else lo == up


def c_start_synced(view, a):
    x, y = a["task_1"]["$"], a["task_2"]["$"]
    if not (view.sched[x] and view.sched[y]):
        return True
    return view.start[x] == view.start[y]


def c_end_synced(view, a):
    x, y = a["task_1"]["$"], a["task_2"]["$"]
    if not (view.sched[x] and view.sched[y]):
        return True
    return view.end[x] == view.end[y]


def c_dont_overlap(view, a):
    x, y = a["task_1"]["$"], a["task_2"]["$"]
    if not (view.sched[x] and view.sched[y]):
        return True
    s1, e1, s2, e2 = view.start[x], view.end[x], view.start[y], view.end[y]
    if e1 < s1 or e2 < s2:
        return None
    if s1 == e1 and s2 == e2 and s1 == s2:
        return None
    if s1 == e1 and s2 < s1 < e2:
        return None
    if s2 == e2 and s1 < s2 < e1:
        return None
    return e1 <= s2 or e2 <= s1


def c_contiguous(view, a):
    ts = [r["$"] for r in a["list_of_tasks"] if view.sched[r["$"]]]
    if any(view.end[t] <= view.start[t] for t in ts):
        return None
    ts.sort(key=lambda t: (view.start[t], view.end[t]))
    for p, q in zip(ts, ts[1:]):
        if view.start[q] != view.end[p]:
            return False
    return True


def _group(view, a, ordered):
    ids = [r["$"] for r in a["list_of_tasks"]]
    ts = [t for t in ids if view.sched[t]]
    res = True
    if a.get("time_interval") is not None:
        lo, hi = a["time_interval"]
        res = all(view.start[t] >= lo and view.end[t] <= hi for t in ts)
    elif "time_interval_length" in a:
        L = a["time_interval_length"]
        if L is None:
            res = True
        elif ts:
            res = max(view.end[t] for t in ts) - min(view.start[t] for t in ts) <= L
    if ordered:
        k = a.get("kind", "lax")

        def rel(p, q):
            x, y = view.end[p], view.start[q]
            return x <= y if k == "lax" else x < y if k == "strict" else x == y

        # the order binds the scheduled members, in list order (unscheduled members are skipped)
        order = True
        for p, q in zip(ts, ts[1:]):
            order = k_and([order, rel(p, q)])
        res = k_and([res, order])
    return res


def c_unordered_group(view, a):
    return _group(view, a, False)


def c_ordered_group(view, a):
    return _group(view, a, True)


def c_schedule_n(view, a):
    n = 0
    for r in a["list_of_tasks"]:
        t = r["$"]
        if not view.sched[t]:
            continue
        if any(view.start[t] >= lo and view.end[t] <= hi for lo, hi in a["list_of_time_intervals"]):
            n += 1
    return _cmp(a.get("kind", "exact"), n, a["nb_tasks_to_schedule"])


def c_force_schedule(view, a):
    return view.sched[a["task"]["$"]] == a["to_be_scheduled"]


def c_condition_schedule(view, a):
    c = ev(view, a["condition"]["$e"])
    if c is None:
        return None
    return view.sched[a["task"]["$"]] == bool(c)


def c_dependency(view, a):
    s1, s2 = view.sched[a["task_1"]["$"]], view.sched[a["task_2"]["$"]]
    if s1 and not s2:
        return False
    if s2 and not s1:
        return None  # prose says "if task_1 then task_2", docstring says iff
    return True


def c_force_n_tasks(view, a):
    n = sum(1 for r in a["list_of_optional_tasks"] if view.sched[r["$"]])
    return _cmp(a.get("kind", "exact"), n, a.get("nb_tasks_to_schedule", 1))


def c_expression(view, a):
    v = ev(view, a["expression"]["$e"])
    return None if v is None else bool(v)


# ---- resource constraints
def _res_busy(view, rid):
    wb, cb = view.busy()
    if rid in wb:
        return [(t, bs, be) for (t, bs, be, k) in wb[rid]], False
    return list(cb.get(rid, [])), True


def c_unavailable(view, a):
    lst, _c = _res_busy(view, a["resource"]["$"])
    res = True
    for (t, bs, be) in lst:
        for lo, hi in a["list_of_time_intervals"]:
            res = k_and([res, k_not(interval_conflict(bs, be, lo, hi))])
    return res


def periodic_windows(a, upto):
    """[(lo, hi, status)] of all repetitions intersecting [-1, upto+1]; status 'on'/'off'/'edge'."""
    per, off = a["period"], a.get("offset", 0)
    st, en = a.get("start", 0), a.get("end")
    out = []
    for lo0, hi0 in a["list_of_time_intervals"]:
        k = -2
        while True:
            lo, hi = lo0 + off + k * per, hi0 + off + k * per
            k += 1
            if hi < -1:
                continue
            if lo > upto + 1:
                break
            inside = lo >= st and (en is None or hi <= en)
            disjoint = hi <= st or (en is not None and lo >= en)
            out.append((lo, hi, "on" if inside else "off" if disjoint else "edge"))
    return out


def c_periodically_unavailable(view, a):
    lst, _c = _res_busy(view, a["resource"]["$"])
    res = True
    H = view.program["H"]
    wins = periodic_windows(a, H + 2)
    st, en = a.get("start", 0), a.get("end")
    for (t, bs, be) in lst:
        outside = be <= st or (en is not None and bs >= en)
        for lo, hi, status in wins:
            c = interval_conflict(bs, be, lo, hi)
            if c is False:
                continue
            if status == "off":
                # an inactive repetition: certainly harmless for a task lying entirely outside the
                # activity window; for a task straddling the window's edge the docs are silent
                if not outside:
                    res = k_and([res, None])
                continue
            if status == "edge" or c is None:
                res = k_and([res, None])
            else:
                res = False
    return res


def c_workload(view, a):
    rid = a["resource"]["$"]
    lst, is_cumul = _res_busy(view, rid)
    kind = a.get("kind", "max")
    res = True
    for (lo, hi), bound in a["dict_time_intervals_and_bound"]["$tupkeys"]:
        tot = 0
        for (t, bs, be) in lst:
            if be < bs:
                return None
            tot += overlap_len(bs, be, lo, hi)
        v = _cmp(kind, tot, bound)
        if is_cumul and kind != "max":
            v = None
        res = k_and([res, v])
    return res


def _gaps(view, rid):
    lst, is_cumul = _res_busy(view, rid)
    if is_cumul:
        return None
    if any(be <= bs for (_t, bs, be) in lst):
        return None
    lst = sorted(lst, key=lambda x: (x[1], x[2]))
    return [(p[2], q[1]) for p, q in zip(lst, lst[1:])]


def c_tasks_distance(view, a):
    gaps = _gaps(view, a["resource"]["$"])
    if gaps is None:
        return None
    mode, dist = a.get("mode", "exact"), a["distance"]
    ivs = a.get("list_of_time_intervals")
    for (pe, qs) in gaps:
        if qs < pe:
            return None
        if ivs is not None and not any(lo <= pe <= hi and lo <= qs <= hi for lo, hi in ivs):
            continue
        if not _cmp(mode, qs - pe, dist):
            return False
    return True


def c_non_delay(view, a):
    gaps = _gaps(view, a["resource"]["$"])
    if gaps is None:
        return None
    return all(qs == pe for (pe, qs) in gaps)


def _interrupted(view, a, windows):
    rid = a["resource"]["$"]
    lst, _c = _res_busy(view, rid)
    res = True
    st, en = a.get("start", 0), a.get("end")
    for (t, bs, be) in lst:
        task = view.tasks[t]
        outside = be <= st or (en is not None and bs >= en)
        for lo, hi, status in windows:
            # inactive repetition touched by a task that straddles the activity window: unspecified
            if status == "off" and not outside and (overlap_len(bs, be, lo, hi) > 0 or lo < bs < hi or lo < be < hi):
                res = k_and([res, None])
        if task["cls"] == "VariableDurationTask":
            tot = 0
            for lo, hi, status in windows:
                if status == "off":
                    continue
                inside_s, inside_e = lo < bs < hi, lo < be < hi
                ov = overlap_len(bs, be, lo, hi) > 0
                if status == "edge":
                    if inside_s or inside_e or ov:
                        res = k_and([res, None])
                    continue
                if inside_s or inside_e:
                    res = False
                elif ov:
                    tot += hi - lo
            d = view.dur[t]
            ok = d >= task["args"].get("min_duration", 0) + tot
            if task["args"].get("max_duration") is not None:
                ok = ok and d <= task["args"]["max_duration"] + tot
            res = k_and([res, ok])
        else:
            for lo, hi, status in windows:
                if status == "off":
                    continue
                c = interval_conflict(bs, be, lo, hi)
                if c is False:
                    continue
                if status == "edge" or c is None:
                    res = k_and([res, None])
                else:
                    res = False
    return res


def c_interrupted(view, a):
    return _interrupted(view, a, [(lo, hi, "on") for lo, hi in a["list_of_time_intervals"]])


def c_periodically_interrupted(view, a):
    return _interrupted(view, a, periodic_windows(a, view.program["H"] + 2))


def _common(view, a):
    d1, d2 = view.dd[a["select_workers_1"]["$"]], view.dd[a["select_workers_2"]["$"]]
    l1 = [w["$"] for w in d1["args"]["list_of_workers"]]
    l2 = [w["$"] for w in d2["args"]["list_of_workers"]]
    return d1["id"], d2["id"], [w for w in l1 if w in l2]


def c_same_workers(view, a):
    s1, s2, common = _common(view, a)
    res = True
    for w in common:
        x, y = view.selected(s1, w), view.selected(s2, w)
        if x is None or y is None:
            return None
        res = res and (x == y)
    return res


def c_distinct_workers(view, a):
    s1, s2, common = _common(view, a)
    res = True
    for w in common:
        x, y = view.selected(s1, w), view.selected(s2, w)
        if x is None or y is None:
            return None
        res = res and not (x and y)
    return res


# ---- first-order logic
def _operand(view, v):
    if isinstance(v, bool):
        return v
    if "$e" in v:
        r = ev(view, v["$e"])
        return None if r is None else bool(r)
    if "$new" in v:
        return con_verdict(view, v["$new"])
    if "$" in v:
        return con_verdict(view, view.dd[v["$"]])
    raise ValueError(v)


def c_not(view, a):
    return k_not(_operand(view, a["constraint"]))


def c_or(view, a):
    return k_or(_operand(view, x) for x in a["list_of_constraints"])


def c_and(view, a):
    return k_and(_operand(view, x) for x in a["list_of_constraints"])


def c_xor(view, a):
    return k_xor(_operand(view, a["constraint_1"]), _operand(view, a["constraint_2"]))


def c_implies(view, a):
    return k_implies(_operand(view, a["condition"]), k_and(_operand(view, x) for x in a["list_of_constraints"]))


def c_ite(view, a):
    return k_ite(_operand(view, a["condition"]),
                 k_and(_operand(view, x) for x in a["then_list_of_constraints"]),
                 k_and(_operand(view, x) for x in a["else_list_of_constraints"]))


def c_force_apply_n(view, a):
    flags = [view.leaf.get(("applied", r["$"])) for r in a["list_of_optional_constraints"]]
    if any(f is None for f in flags):
        return None
    return _cmp(a.get("kind", "exact"), sum(1 for f in flags if f), a.get("nb_constraints_to_apply", 1))


def _ind_constraint(view, a, test):
    d = view.dd[a["indicator"]["$"]]
    vals = indicator_values(view, d)
    if vals is None:
        return None
    res = [test(v) for v in vals]
    if all(res):
        return True
    if not any(res):
        return False
    return None


def c_indicator_target(view, a):
    return _ind_constraint(view, a, lambda v: v == a["value"])


def c_indicator_bounds(view, a):
    lo, up = a.get("lower_bound"), a.get("upper_bound")
    return _ind_constraint(view, a, lambda v: (lo is None or v >= lo) and (up is None or v <= up))


_CON = {
    "IndicatorTarget": c_indicator_target, "IndicatorBounds": c_indicator_bounds,
    "TaskStartAt": c_start_at, "TaskEndAt": c_end_at, "TaskStartAfter": c_start_after, "TaskEndBefore": c_end_before,
    "TaskPrecedence": c_precedence, "TasksStartSynced": c_start_synced, "TasksEndSynced": c_end_synced,
    "TasksDontOverlap": c_dont_overlap, "TasksContiguous": c_contiguous,
    "UnorderedTaskGroup": c_unordered_group, "OrderedTaskGroup": c_ordered_group,
    "ScheduleNTasksInTimeIntervals": c_schedule_n,
    "OptionalTaskForceSchedule": c_force_schedule, "OptionalTaskConditionSchedule": c_condition_schedule,
    "OptionalTasksDependency": c_dependency, "ForceScheduleNOptionalTasks": c_force_n_tasks,
    "ConstraintFromExpression": c_expression,
    "ResourceUnavailable": c_unavailable, "ResourcePeriodicallyUnavailable": c_periodically_unavailable,
    "WorkLoad": c_workload, "ResourceTasksDistance": c_tasks_distance, "ResourceNonDelay": c_non_delay,
    "ResourceInterrupted": c_interrupted, "ResourcePeriodicallyInterrupted": c_periodically_interrupted,
    "SameWorkers": c_same_workers, "DistinctWorkers": c_distinct_workers,
    "Not": c_not, "Or": c_or, "And": c_and, "Xor": c_xor, "Implies": c_implies, "IfThenElse": c_ite,
    "ForceApplyNOptionalConstraints": c_force_apply_n,
}

CONSTRAINT_CLS = set(_CON) | {"TaskLoadBuffer", "TaskUnloadBuffer", "IndicatorTarget", "IndicatorBounds"}


def nested_ids(program):
    """ids of top-level constraints used as operands of a connective (must not be enforced alone)."""
    used = set()

    def walk(v):
        if isinstance(v, dict):
            if "$new" in v:
                walk(v["$new"]["args"])
            else:
                for x in v.values():
                    walk(x)
        elif isinstance(v, list):
            for x in v:
                walk(x)

    def refs(v, acc):
        if isinstance(v, dict):
            if "$" in v and len(v) == 1:
                acc.add(v["$"])
            elif "$new" in v:
                refs(v["$new"]["args"], acc)
            else:
                for x in v.values():
                    refs(x, acc)
        elif isinstance(v, list):
            for x in v:
                refs(x, acc)

    for d in program["decls"]:
        if d["k"] == "new" and d["cls"] in ("Not", "Or", "And", "Xor", "Implies", "IfThenElse"):
            acc = set()
            refs(d["args"], acc)
            used |= acc
    dd = dsl.decl_by_id(program)
    return {u for u in used if u in dd and dd[u]["cls"] in _CON}


def constraint_clauses(view, out):
    skip = nested_ids(view.program)
    for d in view.program["decls"]:
        if d["k"] != "new" or d["cls"] not in _CON:
            continue
        if d["id"] in skip:
            continue
        v = con_verdict(view, d)
        if d["args"].get("optional") is True:
            ap = view.leaf.get(("applied", d["id"]))
            if ap is None:
                v = None if v is not True else True
            elif not ap:
                v = True
        info = {k: d["args"][k] for k in ("kind", "mode") if k in d["args"]}
        out.append((d["id"], d["cls"], "meaning", v, info or None))


# --------------------------------------------------------------------------- buffers (C09)
def buffer_walk(view, bid):
    """Reference walk of one buffer. Returns (verdict, levels, times) - levels[0] initial (may be None)."""
    b = view.dd[bid]
    a = b["args"]
    events = {}  # time -> [(qty, task)]
    n_access = {}
    for d in view.program["decls"]:
        if d["k"] == "new" and d["cls"] in ("TaskLoadBuffer", "TaskUnloadBuffer") and d["args"]["buffer"]["$"] == bid:
            tid = d["args"]["task"]["$"]
            if not view.sched[tid]:
                continue
            q = d["args"]["quantity"]
            if d["cls"] == "TaskLoadBuffer":
                t, dq = view.end[tid], q
            else:
                t, dq = view.start[tid], -q
            events.setdefault(t, []).append(dq)
    times = sorted(events)
    verdict = True
    if b["cls"] == "NonConcurrentBuffer" and any(len(v) > 1 for v in events.values()):
        verdict = False
    return verdict, times, [sum(events[t]) for t in times]


def buffer_clauses(view, out):
    for b in dsl.decls_of(view.program, "NonConcurrentBuffer", "ConcurrentBuffer"):
        a = b["args"]
        verdict, times, deltas = buffer_walk(view, b["id"])
        init, final = a.get("initial_level"), a.get("final_level")
        lo, up = a.get("lower_bound"), a.get("upper_bound")
        tot = sum(deltas)
        if init is None:
            # the initial level is free: it is whatever makes the final level right
            init = final - tot
        levels = [init]
        for dq in deltas:
            levels.append(levels[-1] + dq)
        ok = verdict
        if final is not None and levels[-1] != final:
            ok = False
        if lo is not None and any(l < lo for l in levels):
            ok = False
        if up is not None and any(l > up for l in levels):
            ok = False
        out.append((b["id"], b["cls"], "buffer-walk", ok, {"levels": levels, "times": times}))


# --------------------------------------------------------------------------- all clauses
def clauses(program, leaf, families=("task", "resource", "constraint", "buffer")):
    view = View(program, leaf)
    out = []
    if "task" in families:
        task_clauses(view, out)
    if "resource" in families:
        resource_clauses(view, out)
    if "constraint" in families:
        constraint_clauses(view, out)
    if "buffer" in families:
        buffer_clauses(view, out)
    return out


def verdict(cl):
    """Overall verdict of a leaf from its clause list."""
    if any(c[3] is False for c in cl):
        return False
    if any(c[3] is None for c in cl):
        return None
    return True


# --------------------------------------------------------------------------- indicators (C08)
def _fn_value(fdecl, x):
    """Value of a cost function declaration at integer x."""
    d = fdecl["$new"] if "$new" in fdecl else fdecl
    a = d["args"]
    if d["cls"] == "ConstantFunction":
        return a["value"]
    if d["cls"] == "LinearFunction":
        return a["slope"] * x + a["intercept"]
    if d["cls"] == "PolynomialFunction":
        co = a["coefficients"]
        n = len(co) - 1
        return sum(c * x ** (n - i) for i, c in enumerate(co))
    raise ValueError(d["cls"])


def _cost_twice(view, wid):
    """Twice the documented cost of one worker: sum over busy intervals of (f(bs)+f(be))*(be-bs)."""
    wb, cb = view.busy()
    d = view.dd[wid]
    f = d["args"].get("cost")
    if f is None:
        return 0
    if "$" in f:
        # a cost function declared as an object of its own (its attributes may have been assigned afterwards)
        f = view.dd[f["$"]]
    tot = 0
    for (_t, bs, be, _k) in wb[wid]:
        if be < bs:
            return None
        tot += (_fn_value(f, bs) + _fn_value(f, be)) * (be - bs)
    return tot


def indicator_values(view, d):
    """Set of acceptable integer values of an indicator / objective-created indicator at this leaf (None = UNSPEC)."""
    cls, a = d["cls"], d["args"]
    wb, cb = view.busy()
    sched = [t for t in view.tasks if view.sched[t]]

    def tasks_arg():
        if a.get("list_of_tasks") is None:
            return list(view.tasks)
        return [r["$"] for r in a["list_of_tasks"]]

    if cls in ("IndicatorResourceUtilization", "ObjectiveMaximizeResourceUtilization"):
        rid = a["resource"]["$"]
        if rid not in wb:
            return None
        if any(be < bs for (_t, bs, be, _k) in wb[rid]):
            return None
        busy = sum(be - bs for (_t, bs, be, _k) in wb[rid])
        H = view.horizon
        if not H:
            return None
        exact = 100 * busy / H
        return {r for r in range(int(exact) - 1, int(exact) + 2) if abs(r - exact) < 1}
    if cls == "IndicatorNumberTasksAssigned":
        rid = a["resource"]["$"]
        if rid not in wb:
            return None
        return {len(wb[rid])}
    if cls in ("IndicatorResourceCost", "ObjectiveMinimizeResourceCost"):
        tot2 = 0
        for r in a["list_of_resources"]:
            rid = r["$"]
            if rid not in wb:
                return None
            f = view.dd[rid]["args"].get("cost")
            c2 = _cost_twice(view, rid)
            if c2 is None:
                return None
            tot2 += c2
        return {tot2 // 2, -((-tot2) // 2)}
    if cls == "IndicatorResourceIdle":
        rid = a["resource"]["$"]
        if rid not in wb:
            return None
        lst = sorted((bs, be) for (_t, bs, be, _k) in wb[rid])
        if any(be <= bs for bs, be in lst):
            return None
        return {sum(q[0] - p[1] for p, q in zip(lst, lst[1:]))}
    if cls in ("IndicatorTardiness", "IndicatorEarliness", "IndicatorNumberOfTardyTasks", "IndicatorMaximumLateness"):
        ts = [t for t in tasks_arg() if view.sched[t]]
        if any(view.tasks[t]["args"].get("due_date") is None for t in tasks_arg()):
            return None
        due = {t: view.tasks[t]["args"]["due_date"] for t in ts}
        if cls == "IndicatorTardiness":
            # "the weighted sum of total tardiness": each task's tardiness counts priority times
            return {sum(max(0, view.end[t] - due[t]) * view.tasks[t]["args"].get("priority", 1) for t in ts)}
        if cls == "IndicatorEarliness":
            return {sum(max(0, due[t] - view.end[t]) for t in ts)}
        if cls == "IndicatorNumberOfTardyTasks":
            return {sum(1 for t in ts if view.end[t] > due[t])}
        if not ts:
            return None
        return {max(view.end[t] - due[t] for t in ts)}
    if cls == "ObjectiveMinimizeFlowtime":
        return {sum(view.end[t] for t in tasks_arg() if view.sched[t])}
    if cls == "ObjectivePriorities":
        return {sum(view.end[t] * view.tasks[t]["args"].get("priority", 1) for t in sched)}
    if cls == "ObjectiveTasksStartEarliest":
        return {sum(view.start[t] * view.tasks[t]["args"].get("priority", 1) for t in sched)}
    if cls == "ObjectiveTasksStartLatest":
        ts = [t for t in tasks_arg() if view.sched[t]]
        return {min(view.start[t] for t in ts)} if ts else None
    if cls == "ObjectiveMinimizeGreatestStartTime":
        ts = [t for t in tasks_arg() if view.sched[t]]
        return {max(view.start[t] for t in ts)} if ts else None
    if cls == "ObjectiveMinimizeFlowtimeSingleResource":
        rid = a["resource"]["$"]
        lo, hi = a.get("time_interval") or (0, view.horizon)
        ts = [(bs, be) for (_t, bs, be, _k) in wb.get(rid, []) if bs >= lo and be <= hi]
        if not ts or len(ts) != len(wb.get(rid, [])):
            return None
        return {max(e for _s, e in ts) - min(s for s, _e in ts)}
    if cls in ("IndicatorMaxBufferLevel", "IndicatorMinBufferLevel", "ObjectiveMaximizeMaxBufferLevel", "ObjectiveMinimizeMaxBufferLevel"):
        bid = a["buffer"]["$"]
        if any(not s for s in view.sched.values()):
            return None
        b = view.dd[bid]["args"]
        verdict, times, deltas = buffer_walk(view, bid)
        init = b.get("initial_level")
        if init is None:
            init = b["final_level"] - sum(deltas)
        levels = [init]
        for dq in deltas:
            levels.append(levels[-1] + dq)
        return {min(levels)} if cls == "IndicatorMinBufferLevel" else {max(levels)}
    if cls == "IndicatorFromMathExpression":
        v = ev(view, a["expression"]["$e"])
        if v is None or isinstance(v, bool):
            return None
        return {v}
    return None
