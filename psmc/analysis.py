"""Per-program schedule-space analysis (runs in a pool worker).

S (soundness)  : every leaf admitted by the implementation must not be INVALID for the reference.
K (completeness): every leaf VALID for the reference must be admitted by the implementation.
"""
import json

from . import boot, dsl, explore as ex, ref


def _leaf_list(leaf):
    return [[list(k), v] for k, v in sorted(leaf.items(), key=lambda kv: repr(kv[0]))]


def leaf_from_list(lst):
    return {tuple(k): v for k, v in lst}


def make_solver(built, solver_kw):
    import processscheduler as ps

    kw = dict(solver_kw or {})
    kw.setdefault("max_time", 30)
    with boot.quiet():
        if built.program.get("early_solver") is not None and "early_solver" in built.ns:
            solver = built.ns["early_solver"]  # created right after the problem, with the program's own keyword arguments
        else:
            solver = ps.SchedulingSolver(problem=built.pb, **kw)
        solver.initialize()
    return solver


def features(program):
    f = set()
    for t in dsl.tasks_of(program):
        a = t["args"]
        opt = "optional" if a.get("optional") else "mandatory"
        f.add(f"{opt}:{t['cls']}")
        for k in ("release_date", "due_date", "work_amount"):
            if a.get(k):
                f.add(f"{opt}+{k}")
    for (tid, rid, dyn, di, eo) in dsl.reqs_of(program):
        if dyn:
            f.add("dynamic")
        if di or eo:
            f.add("delay")
    for d in program["decls"]:
        if d["k"] == "new" and d["cls"] in ("CumulativeWorker", "SelectWorkers", "NonConcurrentBuffer", "ConcurrentBuffer"):
            f.add(d["cls"])
    return sorted(f)


REMOVABLE_SKIP = dsl.TASK_CLS | {"Worker", "CumulativeWorker", "SelectWorkers", "ConstantFunction", "LinearFunction",
                                 "PolynomialFunction"}


def _refs_in(v, acc):
    if isinstance(v, dict):
        if "$" in v and len(v) == 1:
            acc.add(v["$"])
        elif "$new" in v:
            _refs_in(v["$new"]["args"], acc)
        else:
            for x in v.values():
                _refs_in(x, acc)
    elif isinstance(v, list):
        for x in v:
            _refs_in(x, acc)


def _expr_ids(a, acc):
    if isinstance(a, list):
        if a and a[0] in ("applied", "ind") and len(a) > 1:
            acc.add(a[1])
        for x in a[1:]:
            _expr_ids(x, acc)


def without(program, removed):
    """The program with some declarations deleted, together with every declaration that refers to them."""
    removed = set(removed)
    changed = True
    decls = program["decls"]
    while changed:
        changed = False
        for d in decls:
            if d["k"] != "new" or d.get("id") in removed or not d.get("id"):
                continue
            acc = set()
            _refs_in(d["args"], acc)
            if acc & removed:
                removed.add(d["id"])
                changed = True
    out = []
    for d in decls:
        if d["k"] == "new" and d.get("id") in removed:
            continue
        if d["k"] == "req" and (d["task"] in removed or d["res"] in removed):
            continue
        if d["k"] == "reqs":
            if d["task"] in removed:
                continue
            d = dict(d, res=[r for r in d["res"] if r not in removed])
        out.append(d)
    return dict(program, decls=out), removed


def culprit(program, leaf, solver_kw=None):
    """1-minimal set of removable declarations whose presence makes the implementation reject `leaf`."""
    removable = [d["id"] for d in program["decls"] if d["k"] == "new" and d.get("id") and d["cls"] not in REMOVABLE_SKIP]
    keep = list(removable)

    def rejects(keep_ids):
        sub, removed = without(program, set(removable) - set(keep_ids))
        try:
            built = dsl.build(sub)
            solver = make_solver(built, solver_kw)
            prims = ex.primaries(built)
        except Exception:
            return None
        pk = {p.key for p in prims}
        l2 = {k: v for k, v in leaf.items() if k in pk}
        import z3

        return ex.admits(solver._solver, prims, l2) == z3.unsat

    if rejects(keep) is not True:
        return None
    for rid in list(removable):
        if rid not in keep:
            continue
        trial = [k for k in keep if k != rid]
        # also drops dependants: recompute the effective keep set
        _sub, removed = without(program, set(removable) - set(trial))
        trial = [k for k in removable if k not in removed]
        if rejects(trial) is True:
            keep = trial
    dd = dsl.decl_by_id(program)
    return sorted(keep), sorted(dd[k]["cls"] for k in keep)


def enum_valid(program, prims, families, counts):
    """Reference enumeration of the box: yield every leaf the reference calls VALID (pure Python)."""
    n = len(prims)
    assign = {}
    tasks = {t["id"]: t for t in dsl.tasks_of(program)}
    last_prim_of_task = {}
    for i, p in enumerate(prims):
        if p.key[0] in ("start", "end", "dur"):
            last_prim_of_task[p.key[1]] = i
    uh = program.get("horizon")

    def task_ok(tid):
        t = tasks[tid]
        a = t["args"]
        s, e = assign[("start", tid)], assign[("end", tid)]
        if t["cls"] == "FixedDurationTask":
            d = a["duration"]
        elif t["cls"] == "ZeroDurationTask":
            d = 0
        else:
            d = assign[("dur", tid)]
            if d < a.get("min_duration", 0):
                return False
            if a.get("max_duration") is not None and d > a["max_duration"]:
                return False
            if a.get("allowed_durations") is not None and d not in a["allowed_durations"]:
                return False
        if s < 0 or e - s != d:
            return False
        if uh is not None and e > uh:
            return False
        if a.get("release_date") is not None and s < a["release_date"]:
            return False
        if a.get("due_date") is not None and a.get("due_date_is_deadline", True) and e > a["due_date"]:
            return False
        return True

    def rec(i):
        while i < n and not ((prims[i].owner is None or assign.get(("sched", prims[i].owner), True))
                             and (prims[i].cond is None or assign.get(prims[i].cond, False))):
            i += 1
        if i == n:
            cl = ref.clauses(program, assign, families)
            v = ref.verdict(cl)
            if v is True:
                counts["valid"] += 1
                yield dict(assign)
            elif v is None:
                counts["unspec"] += 1
            else:
                counts["invalid"] += 1
                # sensitivity ledger: box points where exactly ONE reference clause fails are the points
                # that only that clause keeps out (a weakened encoder of that clause shows there)
                failing = [c for c in cl if c[3] is False]
                if len(failing) == 1:
                    k = failing[0][1] + ":" + failing[0][2]
                    counts.setdefault("critical", {})
                    counts["critical"][k] = counts["critical"].get(k, 0) + 1
            return
        p = prims[i]
        for val in p.dom:
            assign[p.key] = val
            if p.key[0] in ("start", "end", "dur") and last_prim_of_task.get(p.key[1]) == i and "task" in families:
                if not task_ok(p.key[1]):
                    counts["invalid_pruned"] += 1
                    continue
            yield from rec(i + 1)
        assign.pop(p.key, None)

    yield from rec(0)


POST = {}


class Raised:
    """solve()/build_solution() raised on an admitted leaf (falsy)."""

    def __init__(self, exc):
        self.exc = f"{type(exc).__name__}: {exc}"[:200]

    def __bool__(self):
        return False


def solve_under_pins(solver, prims, leaf):
    """The reported solution of one admitted leaf: the real solve()/build_solution() under the leaf's pins."""
    zs = solver._solver
    zs.push()
    try:
        zs.add(*ex.pins_of(prims, leaf))
        with boot.quiet():
            try:
                return solver.solve()
            except Exception as e:  # reported by the callers as a violation of "a solution is returned for an admitted schedule"
                return Raised(e)
    finally:
        zs.pop()


def raised_violation(program, leaf, sol):
    return ({"dir": "report", "what": "solve-raised-on-admitted-schedule", "exc": sol.exc.split(":")[0]},
            {"program": program, "leaf": _leaf_list(leaf), "expect": "accept", "solver": {}, "what": "solve-raised-on-admitted-schedule", "detail": sol.exc})


def analyze(job):
    """job: {"program", "solver": {}, "families": [...], "directions": "S"|"K"|"SK", "max_checks": int,
             "prim_opts": {...}}"""
    import z3

    program = job["program"]
    families = tuple(job.get("families") or ("task", "resource", "constraint", "buffer"))
    directions = job.get("directions", "S")
    solver_kw = job.get("solver") or {}
    res = {"ok": True, "viol": [], "stats": {}, "ref": {}, "family": job.get("family", "")}
    ctx = boot.no_fd2() if solver_kw.get("debug") else None
    if ctx:
        ctx.__enter__()
    try:
        built = dsl.build(program)
        solver = make_solver(built, solver_kw)
        prims = ex.primaries(built, **(job.get("prim_opts") or {}))
        stats = ex.Stats()
        A = set()
        leaves = [] if job.get("post") else None
        n_inv = n_val = n_uns = 0
        seen_sig = {}
        capped = False
        try:
            for leaf in ex.explore(solver._solver, prims, stats, max_checks=job.get("max_checks", 400000)):
                A.add(ex.leaf_key(leaf))
                if leaves is not None:
                    leaves.append(leaf)
                if "S" not in directions:
                    continue
                cl = ref.clauses(program, leaf, families)
                v = ref.verdict(cl)
                if v is True:
                    n_val += 1
                elif v is None:
                    n_uns += 1
                else:
                    n_inv += 1
                    for c in cl:
                        if c[3] is False:
                            sig = {"dir": "unsound", "cls": c[1], "clause": c[2]}
                            if c[4]:
                                sig.update({k: v2 for k, v2 in c[4].items() if isinstance(v2, (str, int, bool))})
                            sig.update(unsound_disc(program, leaf, c))
                            key = json.dumps(sig, sort_keys=True)
                            k = seen_sig.setdefault(key, [0, None, sig])
                            k[0] += 1
                            if k[1] is None:
                                k[1] = {"program": program, "leaf": _leaf_list(leaf), "solver": solver_kw,
                                        "expect": "reject", "element": c[0],
                                        "failing_clauses": [[x[0], x[1], x[2]] for x in cl if x[3] is False]}
        except ex.BudgetExceeded:
            capped = True
        res["capped"] = capped
        kcounts = {"valid": 0, "unspec": 0, "invalid": 0, "invalid_pruned": 0}
        lost = 0
        if "K" in directions and not capped:
            for leaf in enum_valid(program, prims, families, kcounts):
                if ex.leaf_key(leaf) in A:
                    continue
                # a VALID leaf that exploration did not admit: re-check it as a full leaf
                r = ex.admits(solver._solver, prims, leaf)
                stats.checks += 1
                if r == z3.sat:
                    res.setdefault("inconsistent", []).append(_leaf_list(leaf))
                    continue
                if r == z3.unknown:
                    stats.unknown_leaves += 1
                    continue
                lost += 1
                if lost <= 3 or job.get("all_lost"):
                    cu = culprit(program, leaf, solver_kw)
                    sig = {"dir": "incomplete", "culprit": cu[1] if cu else ["?"]}
                    if not (cu and cu[1]):
                        sig["features"] = features(program)
                    sig["culprit_family"] = "buffer" if cu and any("Buffer" in c for c in cu[1]) else "other"
                    sig["some_task_unscheduled"] = any(v is False for k, v in leaf.items() if k[0] == "sched")
                    if cu and len(cu[0]) <= 2:
                        sig.update(incomplete_disc(program, leaf, cu[0]))
                    key = json.dumps(sig, sort_keys=True)
                    k = seen_sig.setdefault(key, [0, None, sig])
                    k[0] += 1
                    if k[1] is None:
                        k[1] = {"program": program, "leaf": _leaf_list(leaf), "solver": solver_kw, "expect": "accept",
                                "culprit_ids": cu[0] if cu else None}
            res["lost"] = lost
            if job.get("verdict", True) and not capped:
                # the verdict of the real solve() must agree with the explored set
                import processscheduler as ps
                b2 = dsl.build(program)
                raised = None
                with boot.quiet(capture=True) as buf:
                    kw2 = dict(solver_kw)
                    kw2.setdefault("max_time", 60)
                    try:
                        sol = (b2.ns["early_solver"] if program.get("early_solver") is not None else ps.SchedulingSolver(problem=b2.pb, **kw2)).solve()
                    except Exception as e:
                        sol, raised = None, f"{type(e).__name__}: {e}"[:200]
                if raised and stats.admitted > 0:
                    sig = {"dir": "verdict", "what": "solve-raised-on-feasible-problem", "exc": raised.split(":")[0]}
                    seen_sig[json.dumps(sig, sort_keys=True)] = [1, {"program": program, "leaf": [], "solver": solver_kw, "expect": "accept", "detail": raised}, sig]
                said_unsat = (not sol) and "no solution exists" in buf.getvalue()
                res["verdict_checked"] = 1
                if said_unsat and kcounts["valid"] > 0 and lost < kcounts["valid"]:
                    sig = {"dir": "verdict", "what": "no-solution-reported-but-valid-schedule-admitted", "features": features(program)}
                    seen_sig[json.dumps(sig, sort_keys=True)] = [1, {"program": program, "leaf": [], "solver": solver_kw, "expect": "accept"}, sig]
                if sol and stats.admitted == 0 and stats.unknown_leaves == 0 and program.get("horizon") is not None:
                    # (without a user horizon the admitted set is not confined to the box)
                    sig = {"dir": "verdict", "what": "solution-returned-but-box-empty", "features": features(program)}
                    seen_sig[json.dumps(sig, sort_keys=True)] = [1, {"program": program, "leaf": [], "solver": solver_kw, "expect": "reject"}, sig]
        if job.get("post") and not capped:
            n_post = 0
            for (sig, inst) in POST[job["post"]](program, built, solver, prims, leaves, job):
                n_post += 1
                key = json.dumps(sig, sort_keys=True)
                k = seen_sig.setdefault(key, [0, None, sig])
                k[0] += 1
                if k[1] is None:
                    k[1] = inst
            res["post_checked"] = len(leaves)
        for key, (cnt, inst, sig) in seen_sig.items():
            res["viol"].append({"sig": sig, "count": cnt, "instance": inst})
        res["stats"] = {"nodes": stats.nodes, "checks": stats.checks, "admitted": stats.admitted,
                        "unknown_leaves": stats.unknown_leaves, "pruned": stats.pruned_prefixes,
                        "box": ex.box_size(prims)}
        res["ref"] = {"valid": n_val, "invalid": n_inv, "unspec": n_uns, "k": kcounts}
        res["nontrivial"] = bool(stats.admitted > 0 and stats.pruned_prefixes > 0)
        res["A_digest"] = hash(frozenset(A)) & 0xFFFFFFFF
        if job.get("want_sample"):
            some = sorted(A)[:3]
            res["sample"] = {"source": built.src, "admitted": stats.admitted, "box": res["stats"]["box"],
                             "some_admitted_leaves": [[list(map(str, k)) + [v] for k, v in l] for l in some]}
    except Exception as e:
        import traceback

        res["ok"] = False
        res["error"] = f"{type(e).__name__}: {e}"[:400]
        res["tb"] = traceback.format_exc()[-1200:]
        res["program"] = program
    finally:
        if ctx:
            ctx.__exit__(None, None, None)
    return res


# --------------------------------------------------------------------------- discriminators
AUX_CLS = {"TasksContiguous", "ScheduleNTasksInTimeIntervals", "WorkLoad", "ResourceTasksDistance", "ResourceNonDelay", "UnorderedTaskGroup",
           "OrderedTaskGroup"}


def unsound_disc(program, leaf, clause):
    """Details that make a signature specific enough to separate one defect from another."""
    cid, cls, cname = clause[0], clause[1], clause[2]
    view = ref.View(program, leaf)
    d = view.dd.get(cid)
    out = {}
    if d is None:
        return out
    a = d["args"]
    if cls == "ScheduleNTasksInTimeIntervals":
        n = 0
        for r in a["list_of_tasks"]:
            t = r["$"]
            if view.sched[t] and any(view.start[t] >= lo and view.end[t] <= hi for lo, hi in a["list_of_time_intervals"]):
                n += 1
        out["count_vs_n"] = "more" if n > a["nb_tasks_to_schedule"] else "fewer"
    if cls in ("ResourcePeriodicallyUnavailable", "ResourcePeriodicallyInterrupted"):
        out["masked"] = bool(a.get("start", 0) > 0 or a.get("end") is not None)
        # does the offending busy interval start outside every window and run into a later one?
        lst, _c = ref._res_busy(view, a["resource"]["$"])
        wins = ref.periodic_windows(a, program["H"] + 2)
        kinds = set()
        for (t, bs, be) in lst:
            for lo, hi, st in wins:
                if st == "on" and ref.overlap_len(bs, be, lo, hi) > 0:
                    kinds.add("starts-inside" if lo <= bs < hi else "runs-into")
                    kinds.add("tasktype:" + view.tasks[t]["cls"])
        out["how"] = ",".join(sorted(kinds))
    if cls in ("UnorderedTaskGroup", "OrderedTaskGroup"):
        out["has_unscheduled_member"] = any(not view.sched[r["$"]] for r in a["list_of_tasks"])
    if d["cls"] in dsl.TASK_CLS:
        out["optional"] = bool(a.get("optional"))
    if cls in ("Not", "Or", "And", "Xor", "Implies", "IfThenElse"):
        # operands whose encoding introduces auxiliary (existential) unknowns: sorted copies, counters, overlaps
        aux = set()

        def walk(v):
            if isinstance(v, dict):
                if "$new" in v:
                    if v["$new"]["cls"] in AUX_CLS:
                        aux.add(v["$new"]["cls"])
                    walk(v["$new"]["args"])
                elif "$" in v and len(v) == 1:
                    dd_ = view.dd.get(v["$"])
                    if dd_ is not None and dd_["cls"] in AUX_CLS:
                        aux.add(dd_["cls"])
                else:
                    for x in v.values():
                        walk(x)
            elif isinstance(v, list):
                for x in v:
                    walk(x)

        walk(a)
        out["operand_with_auxiliary_unknowns"] = bool(aux)
    return out


def incomplete_disc(program, leaf, culprit_ids):
    view = ref.View(program, leaf)
    out = {}
    for cid in culprit_ids:
        d = view.dd[cid]
        a = d["args"]
        cls = d["cls"]
        for k in ("kind", "mode"):
            if k in a:
                out[f"{cls}.{k}"] = a[k]
        if cls in ("UnorderedTaskGroup", "OrderedTaskGroup"):
            out["has_unscheduled_member"] = any(not view.sched[r["$"]] for r in a["list_of_tasks"])
            out["window"] = "interval" if a.get("time_interval") else "length" if a.get("time_interval_length") else "none"
        if cls in ("ResourcePeriodicallyUnavailable", "ResourcePeriodicallyInterrupted"):
            out["masked"] = bool(a.get("start", 0) > 0 or a.get("end") is not None)
        if cls in ("TaskLoadBuffer", "TaskUnloadBuffer", "NonConcurrentBuffer", "ConcurrentBuffer"):
            out["has_unscheduled_accessor"] = any(
                not view.sched[x["args"]["task"]["$"]] for x in program["decls"]
                if x["k"] == "new" and x["cls"] in ("TaskLoadBuffer", "TaskUnloadBuffer"))
    unsched = [t for t, s in view.sched.items() if not s]
    out["some_task_unscheduled"] = bool(unsched)
    return out
