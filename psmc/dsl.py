"""E0 - program DSL, source generator and builder.

A *program* is a JSON-able dict:
    {"horizon": int|None, "pargs": {...}, "decls": [decl, ...], "H": box horizon}
A decl is one of
    {"k":"new", "id": str, "cls": <public class name>, "args": {kw: value}}
    {"k":"req", "task": id, "res": id, "dynamic": bool, "delay_in": int, "early_out": int}
    {"k":"reqs","task": id, "res": [id...], "dynamic": bool}
Values inside "args": python literals, {"$": id} (reference), {"$e": ast} (z3 expression),
{"$new": decl} (anonymous nested object, e.g. an operand constraint or a cost function),
{"$dt": [y,m,d,h,mi]}, {"$td": seconds}, lists / dicts of those, {"$tupkeys": [[k, v], ...]}.

build() turns the program into Python *source* that only uses the public API and exec()s it,
so the stand-alone replay file is, by construction, exactly what the harness ran.
"""
import json

TASK_CLS = {"FixedDurationTask", "VariableDurationTask", "ZeroDurationTask"}


# --------------------------------------------------------------------------- helpers
def R(i):
    return {"$": i}


def E(ast):
    return {"$e": ast}


def new(cls, id=None, **args):
    return {"k": "new", "id": id, "cls": cls, "args": args}


def fixed(id, duration, **kw):
    return new("FixedDurationTask", id, name=kw.pop("name", id), duration=duration, **kw)


def var(id, **kw):
    return new("VariableDurationTask", id, name=kw.pop("name", id), **kw)


def zero(id, **kw):
    return new("ZeroDurationTask", id, name=kw.pop("name", id), **kw)


def worker(id, **kw):
    return new("Worker", id, name=kw.pop("name", id), **kw)


def cumul(id, size, **kw):
    return new("CumulativeWorker", id, name=kw.pop("name", id), size=size, **kw)


def select(id, workers, n=1, kind="exact", **kw):
    return new("SelectWorkers", id, name=kw.pop("name", id), list_of_workers=[R(w) for w in workers],
               nb_workers_to_select=n, kind=kind, **kw)


def req(task, res, dynamic=False, delay_in=0, early_out=0):
    return {"k": "req", "task": task, "res": res, "dynamic": dynamic, "delay_in": delay_in, "early_out": early_out}


def setattr_(obj, attr, value):
    return {"k": "set", "obj": obj, "attr": attr, "value": value}


def con(cls, id, **args):
    args.setdefault("name", id)
    return new(cls, id, **args)


def const_fn(v):
    return {"$new": new("ConstantFunction", None, value=v)}


def lin_fn(slope, intercept):
    return {"$new": new("LinearFunction", None, slope=slope, intercept=intercept)}


def poly_fn(coeffs):
    return {"$new": new("PolynomialFunction", None, coefficients=list(coeffs))}


def prog(horizon, decls, H=None, **pargs):
    return {"horizon": horizon, "pargs": pargs, "decls": list(decls), "H": H if H is not None else horizon}


def pkey(program):
    return json.dumps(program, sort_keys=True, default=str)


# --------------------------------------------------------------------------- lookups
def effective(program):
    """The program with every `set` statement folded into the arguments of the object it assigns to: what the
    library sees when the solver is built (weights, productivities ... are read then, not at construction)."""
    sets = [d for d in program["decls"] if d["k"] == "set"]
    if not sets:
        return program
    pb_sets = {s_["attr"]: s_["value"] for s_ in sets if s_["obj"] == "$pb"}
    if pb_sets:
        program = dict(program, pargs=dict(program.get("pargs") or {}, **pb_sets))
    out = []
    for d in program["decls"]:
        if d["k"] == "new" and d.get("id"):
            for s_ in sets:
                if s_["obj"] == d["id"]:
                    d = dict(d, args=dict(d["args"], **{s_["attr"]: s_["value"]}))
        out.append(d)
    return dict(program, decls=out)


def decl_by_id(program):
    return {d["id"]: d for d in program["decls"] if d["k"] == "new" and d.get("id")}


def tasks_of(program):
    return [d for d in program["decls"] if d["k"] == "new" and d["cls"] in TASK_CLS]


def decls_of(program, *classes):
    return [d for d in program["decls"] if d["k"] == "new" and d["cls"] in classes]


def reqs_of(program):
    """Flat list of (task_id, res_id, dynamic, delay_in, early_out) in declaration order."""
    out = []
    for d in program["decls"]:
        if d["k"] == "req":
            out.append((d["task"], d["res"], d.get("dynamic", False), d.get("delay_in", 0), d.get("early_out", 0)))
        elif d["k"] == "reqs":
            for r in d["res"]:
                out.append((d["task"], r, d.get("dynamic", False), 0, 0))
    return out


# --------------------------------------------------------------------------- source generation
def _pv(i):
    return "o_" + "".join(ch if ch.isalnum() else "_" for ch in str(i))


_INFIX = {"+", "-", "*", "==", "!=", "<", "<=", ">", ">=", "/", "%"}


def expr_src(a):
    if isinstance(a, bool):
        return repr(a)
    if isinstance(a, int):
        return repr(a)
    op = a[0]
    if op == "start":
        return f"{_pv(a[1])}._start"
    if op == "end":
        return f"{_pv(a[1])}._end"
    if op == "dur":
        return f"{_pv(a[1])}._duration"
    if op == "sched":
        return f"{_pv(a[1])}._scheduled"
    if op == "horizon":
        return "pb._horizon"
    if op == "sel":
        return f"{_pv(a[1])}._selection_dict[{_pv(a[2])}]"
    if op == "ind":
        return f"{_pv(a[1])}._indicator_variable"
    if op == "applied":
        return f"{_pv(a[1])}._applied"
    if op in _INFIX:
        return f"({expr_src(a[1])} {op} {expr_src(a[2])})"
    if op == "and":
        return "z3.And(" + ", ".join(expr_src(x) for x in a[1:]) + ")"
    if op == "or":
        return "z3.Or(" + ", ".join(expr_src(x) for x in a[1:]) + ")"
    if op == "not":
        return f"z3.Not({expr_src(a[1])})"
    if op == "xor":
        return f"z3.Xor({expr_src(a[1])}, {expr_src(a[2])})"
    if op == "implies":
        return f"z3.Implies({expr_src(a[1])}, {expr_src(a[2])})"
    if op == "ite":
        return f"z3.If({expr_src(a[1])}, {expr_src(a[2])}, {expr_src(a[3])})"
    if op == "bool":
        return f"z3.BoolVal({bool(a[1])!r})"
    raise ValueError(f"bad expr {a!r}")


def _val_src(v, pre):
    """source for a value; nested anonymous objects are emitted into `pre` first."""
    if isinstance(v, dict):
        if "$" in v:
            return _pv(v["$"])
        if "$e" in v:
            return expr_src(v["$e"])
        if "$new" in v:
            d = v["$new"]
            name = d.get("id") or f"anon{len(pre)}"
            d = dict(d, id=name)
            _new_src(d, pre)
            return _pv(name)
        if "$dt" in v:
            return "datetime.datetime(" + ", ".join(str(x) for x in v["$dt"]) + ")"
        if "$td" in v:
            return f"datetime.timedelta(seconds={v['$td']})"
        if "$tupkeys" in v:
            return "{" + ", ".join(f"{tuple(k)!r}: {_val_src(x, pre)}" for k, x in v["$tupkeys"]) + "}"
        if "$raw" in v:
            return v["$raw"]
        return "{" + ", ".join(f"{k!r}: {_val_src(x, pre)}" for k, x in v.items()) + "}"
    if isinstance(v, (list, tuple)):
        inner = ", ".join(_val_src(x, pre) for x in v)
        if isinstance(v, tuple):
            return "(" + inner + ("," if len(v) == 1 else "") + ")"
        return "[" + inner + "]"
    return repr(v)


def _new_src(d, pre):
    kws = ", ".join(f"{k}={_val_src(v, pre)}" for k, v in d["args"].items())
    pre.append(f"{_pv(d['id'])} = ps.{d['cls']}({kws})")


def gen_source(program, header=True):
    lines = []
    if header:
        lines += ["import datetime", "import z3", "import processscheduler as ps", ""]
    pa = dict(program.get("pargs") or {})
    pa.setdefault("name", "P")
    if program.get("horizon") is not None:
        pa["horizon"] = program["horizon"]
    pre = []
    if program.get("prelude"):
        lines += list(program["prelude"])  # what happened in the interpreter before this problem was created
    kws = ", ".join(f"{k}={_val_src(v, pre)}" for k, v in pa.items())
    lines += pre
    lines.append(f"pb = ps.SchedulingProblem({kws})")
    if program.get("early_solver") is not None:
        # the solver object exists before anything is declared in the problem (it reads the problem when it is
        # initialised, i.e. at the first solve / initialize / export)
        ekw = "".join(f", {k}={v!r}" for k, v in program["early_solver"].items())
        lines.append(f"early_solver = ps.SchedulingSolver(problem=pb{ekw})")
    n_anon = 0
    for d in program["decls"]:
        if d["k"] == "new":
            if not d.get("id"):
                n_anon += 1
                d = dict(d, id=f"top{n_anon}")
            _new_src(d, lines)
        elif d["k"] == "req":
            extra = ""
            if d.get("dynamic"):
                extra += ", dynamic=True"
            if d.get("delay_in"):
                extra += f", delay_in={d['delay_in']}"
            if d.get("early_out"):
                extra += f", early_out={d['early_out']}"
            lines.append(f"{_pv(d['task'])}.add_required_resource({_pv(d['res'])}{extra})")
        elif d["k"] == "reqs":
            extra = ", dynamic=True" if d.get("dynamic") else ""
            lines.append(f"{_pv(d['task'])}.add_required_resources([{', '.join(_pv(r) for r in d['res'])}]{extra})")
        elif d["k"] == "set":
            # a public attribute assigned after construction (e.g. the weight of a built-in objective)
            target = "pb" if d["obj"] == "$pb" else _pv(d["obj"])
            lines.append(f"{target}.{d['attr']} = {_val_src(d['value'], lines)}")
        elif d["k"] == "raw":
            lines.append(d["src"])
        else:
            raise ValueError(d)
    return "\n".join(lines) + "\n"


class Built:
    def __init__(self, program, ns, src):
        self.program = program
        self.ns = ns
        self.src = src
        self.pb = ns["pb"]

    def obj(self, i):
        return self.ns[_pv(i)]


def build(program):
    """Build the real problem through the public constructors."""
    from . import boot

    boot.boot()
    boot.reset_uuid()
    import datetime
    import z3
    import processscheduler as ps

    src = gen_source(program, header=False)
    ns = {"ps": ps, "z3": z3, "datetime": datetime}
    exec(compile(src, "<program>", "exec"), ns)
    return Built(program, ns, src)
