#!/venv/bin/python
"""Regenerates MANIFEST.json from the table below (keeps it valid at all times)."""
import json, os
HERE = os.path.dirname(os.path.abspath(__file__))
props = [json.loads(l) for l in open(os.path.join(HERE, "properties.jsonl"))]
CHECKS = {}
exec(open(os.path.join(HERE, "manifest_table.py")).read())
checks, na = [], []
for p in props:
    pid = p["id"]
    c = CHECKS.get(pid)
    if not c:
        na.append({"property_id": pid, "reason": "check not built yet (planned, see DESIGN.md section 7)"})
        continue
    checks.append({
        "property_id": pid,
        "quick_cmd": f"./check {pid} --tier quick",
        "thorough_cmd": f"./check {pid} --tier thorough",
        "evidence_file": f"/verif/evidence/{pid}.json",
        "replay_cmd_template": f"./check {pid} --replay {{path}}",
        "engine": c["engine"],
        "level_claimed": {"category": "model_checking", "text": c["text"], "design_ref": c.get("ref", "DESIGN.md section 7")},
        "level_note": c["note"],
        "technique": c["technique"],
    })
m = {
    "version": 1,
    "setup_cmd": "cd /verif && /venv/bin/python -m selftest.ref_tables",
    "hooks": {"guard": "PROCESSSCHEDULER_VERIF", "enable": "none needed: the harness interposes at the z3 API seam from its own process (DESIGN.md section 9)",
              "baseline_off_cmd": "cd /repo && /venv/bin/python -m pytest -ra -q -p no:cacheprovider --timeout=900 --continue-on-collection-errors",
              "source_commits": [], "add_only": True},
    "engines": ENGINES,
    "checks": checks,
    "not_applicable": na,
    "notes": NOTES,
}
json.dump(m, open(os.path.join(HERE, "MANIFEST.json"), "w"), indent=1)
print(len(checks), "checks;", len(na), "not claimed")
