#!/venv/bin/python
import json, sys, collections
rs = [json.loads(l) for l in open(sys.argv[1] if len(sys.argv) > 1 else '/tmp/mut_results.jsonl')]
imp = [r for r in rs if r['imports']]
det = [r for r in imp if r.get('detected')]
print('mutants', len(rs), 'import ok', len(imp), 'detected', len(det), 'avg wall', round(sum(r.get('wall', 0) for r in imp) / max(1, len(imp)), 1))
by = collections.Counter((r['file'], bool(r.get('detected'))) for r in imp)
print(dict(by))
for r in imp:
    if not r.get('detected'):
        print(r['file'], '|', r['desc'], '|', 'errors_only' if r.get('errors_only') else 'SURVIVED', {k: v['rc'] for k, v in r['results'].items()})
