#!/venv/bin/python
"""tools/save_seed.py <Cxx> <k> <confirm-line> <caught-by...>: copy a confirmed seeded change into /verif/seeded/."""
import json, os, shutil, sys
pid, k, confirm = sys.argv[1], sys.argv[2], sys.argv[3]
caught = sys.argv[4:]
src = f"/tmp/seed/out/{pid}/{k}"
dst = f"/verif/seeded/{pid}-{k}"
os.makedirs(dst, exist_ok=True)
for f in ("patch.diff", "demo.py"):
    shutil.copy(os.path.join(src, f), os.path.join(dst, f))
meta = {}
if os.path.exists(os.path.join(src, "meta.json")):
    meta = json.load(open(os.path.join(src, "meta.json")))
meta["property"] = pid
meta["confirmed_by_me"] = {"what_i_ran": "tools/confirm_seed.sh (scratch worktree of /repo HEAD: demo before/after the patch, full test suite with the patch)",
                           "result": confirm}
meta["detected_by"] = caught
json.dump(meta, open(os.path.join(dst, "meta.json"), "w"), indent=1)
print("saved", dst)
