#!/venv/bin/python
"""tools/reverify_seeds.py [ids...]: re-run, for every kept seeded change, the quick tier of the checks recorded in its
meta.json (`detected_by`) against a scratch worktree with the patch applied, until one of them prints a VIOLATION.
Prints one line per seed; exit 1 if some seed is no longer detected. Results in /tmp/reverify_seeds.jsonl."""
import json
import os
import re
import subprocess
import sys

SEEDED = "/verif/seeded"


def main():
    ids = sys.argv[1:] or sorted(os.listdir(SEEDED))
    missed = []
    for sid in ids:
        d = os.path.join(SEEDED, sid)
        meta = json.load(open(os.path.join(d, "meta.json")))
        checks = []
        for e in meta.get("detected_by", []):
            m = re.match(r"(C\d\d)", e)
            if m and m.group(1) not in checks:
                checks.append(m.group(1))
        wt = f"/tmp/reverify_{os.getpid()}"
        subprocess.run(["git", "-C", "/repo", "worktree", "add", "-q", "--detach", wt, "HEAD"], check=True)
        try:
            ap = subprocess.run(["git", "-C", wt, "apply", os.path.join(d, "patch.diff")], capture_output=True, text=True)
            if ap.returncode:
                print(sid, "PATCH-DOES-NOT-APPLY", flush=True)
                missed.append(sid)
                continue
            hit = None
            for c in checks:
                env = dict(os.environ, VERIF_REPO=wt, VERIF_EVIDENCE_DIR=wt + "_ev", VERIF_REPLAY_DIR=wt + "_ev/rp")
                q = subprocess.run(["/verif/check", c, "--tier", "quick"], capture_output=True, text=True, env=env)
                if any(l.startswith("VIOLATION") for l in q.stdout.splitlines()):
                    hit = c
                    break
            print(sid, "detected by " + hit if hit else f"MISSED (tried {checks})", flush=True)
            with open("/tmp/reverify_seeds.jsonl", "a") as f:
                f.write(json.dumps({"seed": sid, "hit": hit, "tried": checks}) + "\n")
            if not hit:
                missed.append(sid)
        finally:
            subprocess.run(["git", "-C", "/repo", "worktree", "remove", "--force", wt])
            subprocess.run(["rm", "-rf", wt + "_ev"])
    print("missed:", missed)
    return 1 if missed else 0


if __name__ == "__main__":
    sys.exit(main())
