#!/venv/bin/python
"""tools/rebase_seeds.py: after a fix: commit in /repo, regenerate the seeded patches whose context moved (git apply --3way
in a scratch worktree of HEAD; a patch that merges cleanly is rewritten and marked in its meta.json, the others are listed)."""
import json
import os
import subprocess
import sys

SEEDED = "/verif/seeded"
WT = f"/tmp/rebase_{os.getpid()}"


def sh(*a, **k):
    return subprocess.run(a, capture_output=True, text=True, **k)


def main():
    head = sh("git", "-C", "/repo", "log", "--format=%h", "-1").stdout.strip()
    sh("git", "-C", "/repo", "worktree", "add", "-q", "--detach", WT, "HEAD")
    todo = []
    try:
        for sid in sorted(os.listdir(SEEDED)):
            patch = os.path.join(SEEDED, sid, "patch.diff")
            if sh("git", "-C", WT, "apply", "--check", patch).returncode == 0:
                continue
            r = sh("git", "-C", WT, "apply", "--3way", patch)
            conflict = "with conflicts" in (r.stdout + r.stderr) or r.returncode != 0
            if not conflict:
                diff = sh("git", "-C", WT, "diff", "HEAD", "--", "processscheduler").stdout
                d0 = sh("/venv/bin/python", os.path.join(SEEDED, sid, "demo.py"), env=dict(os.environ, PYTHONPATH=WT), cwd=WT).returncode
                sh("git", "-C", WT, "reset", "-q", "--hard", "HEAD")
                d1 = sh("/venv/bin/python", os.path.join(SEEDED, sid, "demo.py"), env=dict(os.environ, PYTHONPATH=WT), cwd=WT).returncode
                if d0 != 0 and d1 == 0 and diff.strip():
                    open(patch, "w").write(diff)
                    mp = os.path.join(SEEDED, sid, "meta.json")
                    m = json.load(open(mp))
                    m["rebased"] = f"patch regenerated against /repo {head} (context moved by later fix: commits; same change); demo re-run: 0 unchanged, {d0} changed"
                    json.dump(m, open(mp, "w"), indent=1)
                    print(sid, "rebased")
                    continue
                print(sid, f"3-way clean but demo unchanged={d1} changed={d0}")
            else:
                print(sid, "CONFLICT")
            sh("git", "-C", WT, "reset", "-q", "--hard", "HEAD")
            todo.append(sid)
    finally:
        sh("git", "-C", "/repo", "worktree", "remove", "--force", WT)
    print("manual:", todo)


if __name__ == "__main__":
    main()
