#!/bin/bash
# tools/confirm_seed.sh <seed-out-dir> <id>  : confirm a seeded change in a scratch worktree of /repo HEAD
# (patch applies; demo passes without / fails with; the repository's own suite still passes with it)
set -u
SRC="$1"; ID="$2"
WT=/tmp/seedwt/$ID
rm -rf "$WT"; mkdir -p /tmp/seedwt
git -C /repo worktree add -q --detach "$WT" HEAD || exit 3
cd "$WT" || exit 3
res() { echo "$ID $*"; }
PYTHONPATH=$WT /venv/bin/python "$SRC/demo.py" > /tmp/seedwt/$ID.demo0.log 2>&1; D0=$?
if ! git apply --check "$SRC/patch.diff" 2>/dev/null; then res "PATCH-DOES-NOT-APPLY demo_unchanged=$D0"; git -C /repo worktree remove --force "$WT"; exit 1; fi
git apply "$SRC/patch.diff"
PYTHONPATH=$WT /venv/bin/python "$SRC/demo.py" > /tmp/seedwt/$ID.demo1.log 2>&1; D1=$?
PYTHONPATH=$WT /venv/bin/python -m pytest -q -p no:cacheprovider --timeout=900 -n 4 --deselect test/test_json_io.py test > /tmp/seedwt/$ID.suite.log 2>&1
PYTHONPATH=$WT /venv/bin/python -m pytest -q -p no:cacheprovider --timeout=900 test/test_json_io.py >> /tmp/seedwt/$ID.suite.log 2>&1
FAILS=$(grep -h "^FAILED" /tmp/seedwt/$ID.suite.log | grep -v -E "test_gantt_plotly_base|test_gantt_plotly_raise_wrong_type|test_gantt_plotly_with_indicators_figsize|test_gantt_with_buffers" | wc -l)
SUMMARY=$(grep -h -E "passed|failed" /tmp/seedwt/$ID.suite.log | tr '\n' ' ')
res "demo_unchanged=$D0 demo_changed=$D1 unexpected_test_failures=$FAILS :: $SUMMARY"
cd /; git -C /repo worktree remove --force "$WT"
