#!/bin/bash
# tools/try_seed.sh <patch.diff> <tier> <check ids...> : run checks against a scratch worktree with the patch applied
PATCH="$1"; TIER="$2"; shift 2
WT=/tmp/mut_$$
git -C /repo worktree add -q --detach "$WT" HEAD || exit 3
if ! git -C "$WT" apply "$PATCH"; then echo "PATCH FAILED"; git -C /repo worktree remove --force "$WT"; exit 3; fi
for c in "$@"; do
  out=$(VERIF_REPO=$WT VERIF_EVIDENCE_DIR=/tmp/mut_ev_$$ VERIF_REPLAY_DIR=/tmp/mut_ev_$$/rp /verif/check $c --tier $TIER 2>&1)
  rc=$?
  nv=$(echo "$out" | grep -c '^VIOLATION')
  echo "$c rc=$rc violations=$nv :: $(echo "$out" | tail -1)"
  echo "$out" | grep '^HARNESS-ERROR' | cut -c1-1500
done
git -C /repo worktree remove --force "$WT"; rm -rf /tmp/mut_ev_$$
