#!/venv/bin/python
"""tools/mutate.py <file relative to processscheduler/> [--max N] [--start K]

Systematic first-order mutants of one library file (comparison operators, +/-, small integer constants, boolean
constants, and/or), each applied to a scratch copy of /repo (never to /repo itself) and run against the quick tier of
the checks that own that file. Purpose: find blind spots of the checks (a surviving, non-equivalent mutant).
Results are appended to /tmp/mut_results.jsonl; the scratch copy is removed after each mutant.
"""
import ast
import copy
import json
import os
import shutil
import subprocess
import sys
import time

OWNERS = {
    "task.py": ["C01", "C02", "C05", "C06", "C11", "C18"],
    "resource.py": ["C02", "C05", "C18", "C11"],
    "task_constraint.py": ["C03", "C05", "C06", "C10", "C18", "C19"],
    "resource_constraint.py": ["C04", "C05", "C18"],
    "constraint.py": ["C10", "C18", "C05"],
    "first_order_logic.py": ["C10"],
    "buffer.py": ["C09", "C18"],
    "util.py": ["C09", "C03", "C04", "C08", "C18"],
    "indicator.py": ["C08", "C07", "C06"],
    "objective.py": ["C08", "C07", "C06", "C13"],
    "indicator_constraint.py": ["C08", "C18"],
    "solver.py": ["C01", "C11", "C02", "C09", "C12", "C19", "C16", "C07", "C13"],
    "solution.py": ["C16", "C11"],
    "excel_io.py": ["C16"],
    "plotter.py": ["C17"],
    "problem.py": ["C18", "C14", "C05"],
    "function.py": ["C08", "C16"],
    "base.py": ["C16", "C18"],
}

CMP = {ast.Lt: ast.LtE, ast.LtE: ast.Lt, ast.Gt: ast.GtE, ast.GtE: ast.Gt, ast.Eq: ast.NotEq, ast.NotEq: ast.Eq, ast.Is: ast.IsNot, ast.IsNot: ast.Is}


def sites(tree):
    """Enumerate mutation sites as (description, mutator(tree_copy_node))."""
    out = []
    for idx, node in enumerate(ast.walk(tree)):
        if isinstance(node, ast.Compare) and len(node.ops) == 1 and type(node.ops[0]) in CMP:
            out.append((idx, "cmp", f"line {node.lineno}: {type(node.ops[0]).__name__} -> {CMP[type(node.ops[0])].__name__}"))
        elif isinstance(node, ast.BinOp) and isinstance(node.op, (ast.Add, ast.Sub)):
            out.append((idx, "arith", f"line {node.lineno}: {type(node.op).__name__} flipped"))
        elif isinstance(node, ast.Constant) and isinstance(node.value, bool):
            out.append((idx, "bool", f"line {node.lineno}: {node.value} -> {not node.value}"))
        elif isinstance(node, ast.Constant) and isinstance(node.value, int) and not isinstance(node.value, bool) and 0 <= node.value <= 3:
            out.append((idx, "int", f"line {node.lineno}: {node.value} -> {node.value + 1}"))
        elif isinstance(node, ast.BoolOp):
            out.append((idx, "boolop", f"line {node.lineno}: {type(node.op).__name__} flipped"))
        elif isinstance(node, ast.Attribute) and node.attr in ("_start", "_end") and isinstance(node.ctx, ast.Load):
            out.append((idx, "startend", f"line {node.lineno}: {node.attr} -> {'_end' if node.attr == '_start' else '_start'}"))
    return out


def apply(tree, idx, kind):
    t = copy.deepcopy(tree)
    for i, node in enumerate(ast.walk(t)):
        if i != idx:
            continue
        if kind == "cmp":
            node.ops = [CMP[type(node.ops[0])]()]
        elif kind == "arith":
            node.op = ast.Sub() if isinstance(node.op, ast.Add) else ast.Add()
        elif kind == "bool":
            node.value = not node.value
        elif kind == "int":
            node.value = node.value + 1
        elif kind == "boolop":
            node.op = ast.Or() if isinstance(node.op, ast.And) else ast.And()
        elif kind == "startend":
            node.attr = "_end" if node.attr == "_start" else "_start"
        return t
    raise RuntimeError("site not found")


def main():
    fname = sys.argv[1]
    mx = int(sys.argv[sys.argv.index("--max") + 1]) if "--max" in sys.argv else 10 ** 6
    start = int(sys.argv[sys.argv.index("--start") + 1]) if "--start" in sys.argv else 0
    kinds = sys.argv[sys.argv.index("--kinds") + 1].split(",") if "--kinds" in sys.argv else None
    src_path = os.path.join("/repo/processscheduler", fname)
    src = open(src_path).read()
    tree = ast.parse(src)
    S = [s for s in sites(tree) if kinds is None or s[1] in kinds]
    if "--skip-lines" in sys.argv:  # e.g. 20-41: code no property speaks about
        lo, hi = map(int, sys.argv[sys.argv.index("--skip-lines") + 1].split("-"))
        S = [s for s in S if not lo <= int(s[2].split(":")[0].split()[1]) <= hi]
    # docstrings and type annotations are not interesting
    print(f"{fname}: {len(S)} mutation sites", flush=True)
    work = f"/tmp/mutrepo_{os.getpid()}"
    n = 0
    for k, (idx, kind, desc) in enumerate(S):
        if k < start or n >= mx:
            continue
        n += 1
        try:
            mutated = ast.unparse(apply(tree, idx, kind))
        except Exception as e:
            continue
        shutil.rmtree(work, ignore_errors=True)
        os.makedirs(work)
        shutil.copytree("/repo/processscheduler", os.path.join(work, "processscheduler"))
        with open(os.path.join(work, "processscheduler", fname), "w") as f:
            f.write(mutated)
        # does it still import?
        p = subprocess.run(["/venv/bin/python", "-c", "import sys; sys.path.insert(0, %r); import processscheduler" % work], capture_output=True, text=True)
        rec = {"file": fname, "k": k, "kind": kind, "desc": desc, "imports": p.returncode == 0, "results": {}}
        if p.returncode == 0:
            t0 = time.time()
            for c in OWNERS[fname]:
                env = dict(os.environ, VERIF_REPO=work, VERIF_EVIDENCE_DIR=work + "/ev", VERIF_REPLAY_DIR=work + "/rp")
                q = subprocess.run(["/verif/check", c, "--tier", "quick"], capture_output=True, text=True, env=env)
                nv = sum(1 for l in q.stdout.splitlines() if l.startswith("VIOLATION"))
                rec["results"][c] = {"rc": q.returncode, "violations": nv}
                if nv:
                    break  # detected: no need to run the others
            rec["detected"] = any(r["violations"] for r in rec["results"].values())
            rec["errors_only"] = (not rec["detected"]) and any(r["rc"] == 2 for r in rec["results"].values())
            rec["wall"] = round(time.time() - t0, 1)
        with open("/tmp/mut_results.jsonl", "a") as f:
            f.write(json.dumps(rec) + "\n")
        print(json.dumps({k_: rec[k_] for k_ in ("k", "desc", "imports", "detected", "errors_only", "wall") if k_ in rec}), flush=True)
        shutil.rmtree(work, ignore_errors=True)


if __name__ == "__main__":
    main()
