"""Command line: python -m props.cli C07 [--tier quick|thorough] [--replay path]."""
import argparse
import importlib
import json
import os
import sys


def main():
    ap = argparse.ArgumentParser()
    ap.add_argument("pid")
    ap.add_argument("--tier", default=os.environ.get("VERIF_TIER") or "quick", choices=["quick", "thorough"])
    ap.add_argument("--replay")
    args = ap.parse_args()
    os.environ["VERIF_TIER"] = args.tier
    from psmc import boot

    boot.boot()
    if args.replay:
        return replay(args.pid, args.replay)
    mod = importlib.import_module(f"props.{args.pid}")
    return mod.main(args.tier)


def replay(pid, path):
    """Re-run exactly one artefact: schedule artefacts through the public API, others via the property module."""
    from props import common

    with open(path) as f:
        art = json.load(f)
    inst = art["instance"]
    mod = importlib.import_module(f"props.{pid}")
    if hasattr(mod, "replay"):
        return mod.replay(inst)
    ok, obs = common.confirm_instance(inst)
    print(json.dumps(obs, sort_keys=True)[:2000])
    if ok:
        print(f"VIOLATION property={pid} replay={path}")
        return 1
    print("not reproduced")
    return 0


if __name__ == "__main__":
    sys.exit(main())
