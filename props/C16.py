"""C16 - exports (JSON, CSV/DataFrame, Excel, SMT-LIB) reproduce the data exactly (E4 over the solution corpus; E1 for SMT-LIB)."""
import csv
import io
import json
import os
import re
import tempfile
import zipfile
import xml.etree.ElementTree as ET

from psmc import boot, dsl, run, analysis, ref, explore as ex, history as hs
from psmc.dsl import fixed, var, zero, worker, select, cumul, req, con, prog, R, E, new, const_fn, lin_fn, poly_fn
from . import common, C11

RULE = ("(a) every reported solution of every admitted leaf of the C11 corpus extended with indicators and buffers (unscheduled optional "
        "tasks, zero-duration tasks, calendar times): to_json / to_json_file / to_df / to_csv (string and file, separators , ; tab space |) / "
        "to_excel_file (colors on and off) are re-read with independent parsers (json, csv, zipfile + XML) and compared field by field "
        "with the solution object; (b) export_to_smt2 under both optimisers on a cross-family program list: the file is parsed with "
        "z3.parse_smt2_file and the WHOLE E1 box is explored on the parsed assertion set - it must admit exactly the leaves the live "
        "solver admits; (c) JSON round trip (to_json -> add_from_json / model_validate_json) of task, worker, selection and cost "
        "function definitions over their parameter grids; non-trivial = distinct solutions exported")
ASSUME = ["the solution object is the reference for (a) (its own fidelity is C11)", "z3's SMT-LIB parser and z3 on pinned ground queries are trusted",
          "Excel cells of zero-length items and of unscheduled tasks (negative instants) are not specified"]
FAM = ["task", "resource", "constraint", "buffer"]
NS = {"m": "http://schemas.openxmlformats.org/spreadsheetml/2006/main"}


def col_index(ref_):
    m = re.match(r"([A-Z]+)(\d+)", ref_)
    c = 0
    for ch in m.group(1):
        c = c * 26 + (ord(ch) - 64)
    return c - 1, int(m.group(2)) - 1


def read_xlsx(path):
    """{sheet name: {(row, col): value}}, {sheet name: [(r0, c0, r1, c1) merged]}"""
    z = zipfile.ZipFile(path)
    shared = []
    if "xl/sharedStrings.xml" in z.namelist():
        root = ET.fromstring(z.read("xl/sharedStrings.xml"))
        for si in root.findall("m:si", NS):
            shared.append("".join(t.text or "" for t in si.iter("{%s}t" % NS["m"])))
    wb = ET.fromstring(z.read("xl/workbook.xml"))
    names = [s.get("name") for s in wb.find("m:sheets", NS)]
    cells, merges = {}, {}
    for i, name in enumerate(names):
        root = ET.fromstring(z.read(f"xl/worksheets/sheet{i + 1}.xml"))
        d = {}
        for c in root.iter("{%s}c" % NS["m"]):
            col, row = col_index(c.get("r"))
            v = c.find("m:v", NS)
            if v is None:
                continue
            d[(row, col)] = shared[int(v.text)] if c.get("t") == "s" else (int(float(v.text)) if float(v.text).is_integer() else float(v.text))
        cells[name] = d
        mg = []
        for mc in root.iter("{%s}mergeCell" % NS["m"]):
            a, b = mc.get("ref").split(":")
            c0, r0 = col_index(a)
            c1, r1 = col_index(b)
            mg.append((r0, c0, r1, c1))
        merges[name] = mg
    return cells, merges


def export_check(program, built, solver, prims, leaves, job):
    out = []
    seen = set()
    tmp = tempfile.mkdtemp(prefix="c16_")

    def bad(what, leaf, **kw):
        sig = {"dir": "export", "what": what}
        if "exc" in kw:
            sig["exc"] = kw["exc"].split(":")[0]
        out.append((sig, {"program": program, "leaf": analysis._leaf_list(leaf), "expect": "export", "solver": {}, "what": what,
                                                      "detail": {k: repr(v)[:200] for k, v in kw.items()}}))

    try:
        for leaf in leaves:
            sol = analysis.solve_under_pins(solver, prims, leaf)
            if isinstance(sol, analysis.Raised):
                out.append(analysis.raised_violation(program, leaf, sol))
                continue
            if not sol:
                continue
            key = repr(sorted((n, t.start, t.end, t.scheduled, tuple(t.assigned_resources)) for n, t in sol.tasks.items()))
            if key in seen and not job.get("all_leaves"):
                continue
            seen.add(key)
            # ---- JSON
            try:
                for src in ("string", "file", "string-compact", "file-compact"):
                    compact = src.endswith("compact")
                    if src.startswith("string"):
                        js = json.loads(sol.to_json(compact=compact))
                    else:
                        p = os.path.join(tmp, "s.json")
                        sol.to_json_file(p, compact=compact)
                        js = json.load(open(p))
                    if js.get("horizon") != sol.horizon:
                        bad("json:horizon", leaf, got=js.get("horizon"))
                    if set(js.get("tasks", {})) != set(sol.tasks):
                        bad("json:task-set", leaf, got=sorted(js.get("tasks", {})))
                    for n, t in sol.tasks.items():
                        jt = js["tasks"].get(n, {})
                        for f_ in ("start", "end", "duration", "scheduled", "optional", "assigned_resources", "release_date", "due_date", "priority", "work_amount", "type"):
                            if jt.get(f_) != getattr(t, f_):
                                bad("json:task-field:" + f_, leaf, got=jt.get(f_), want=getattr(t, f_))
                    if set(js.get("resources", {})) != set(sol.resources):
                        bad("json:resource-set", leaf)
                    for n, r_ in sol.resources.items():
                        got = [tuple(a) for a in js["resources"].get(n, {}).get("assignments", [])]
                        if got != [tuple(a) for a in r_.assignments]:
                            bad("json:assignments", leaf, got=got)
                    for n, b_ in sol.buffers.items():
                        jb = js.get("buffers", {}).get(n, {})
                        if jb.get("level") != list(b_.level) or jb.get("level_change_times") != list(b_.level_change_times):
                            bad("json:buffer", leaf, got=jb)
                    if js.get("indicators") != dict(sol.indicators):
                        bad("json:indicators", leaf, got=js.get("indicators"))
            except Exception as e:
                bad("json:raised", leaf, exc=f"{type(e).__name__}: {e}")
            # ---- data frame / CSV
            try:
                df = sol.to_df()
                want_rows = [[n, list(t.assigned_resources), t.start, t.end, t.duration, t.scheduled] for n, t in sol.tasks.items()]
                got_rows = [[row["Task name"], list(row["Allocated Resources"]), int(row["Start"]), int(row["End"]), int(row["Duration"]), bool(row["Scheduled"])]
                            for _i, row in df.iterrows()]
                if got_rows != want_rows:
                    bad("df:rows", leaf, got=got_rows, want=want_rows)
                # what a caller does with a returned frame must not leak into later exports
                try:
                    df.iloc[0, df.columns.get_loc("Start")] = 999
                    df.iloc[0, df.columns.get_loc("Task name")] = "edited-by-caller"
                except Exception:
                    pass
                df2 = sol.to_df()
                got_rows2 = [[row["Task name"], list(row["Allocated Resources"]), int(row["Start"]), int(row["End"]), int(row["Duration"]), bool(row["Scheduled"])]
                             for _i, row in df2.iterrows()]
                if got_rows2 != want_rows:
                    bad("df:second-call-differs", leaf, got=got_rows2, want=want_rows)
                for sep in (",", ";", "\t", " ", "|"):
                    texts = [sol.to_csv(separator=sep)]
                    p = os.path.join(tmp, "s.csv")
                    sol.to_csv(csv_filename=p, separator=sep)
                    texts.append(open(p, newline="").read())
                    for text in texts:
                        rows = list(csv.reader(io.StringIO(text), delimiter=sep))
                        hdr = rows[0]
                        ix = {h: hdr.index(h) for h in ("Task name", "Allocated Resources", "Start", "End", "Duration", "Scheduled")}
                        got = [[r_[ix["Task name"]], r_[ix["Allocated Resources"]], int(r_[ix["Start"]]), int(r_[ix["End"]]), int(r_[ix["Duration"]]), r_[ix["Scheduled"]]]
                               for r_ in rows[1:] if r_]
                        want = [[n, str(list(t.assigned_resources)), t.start, t.end, t.duration, str(t.scheduled)] for n, t in sol.tasks.items()]
                        if got != want:
                            bad("csv:rows", leaf, got=got, want=want, sep=sep)
            except Exception as e:
                bad("df-csv:raised", leaf, exc=f"{type(e).__name__}: {e}")
            # ---- Excel
            for colors in (False, True):
                try:
                    p = os.path.join(tmp, "s.xlsx")
                    sol.to_excel_file(p, colors=colors)
                    cells, merges = read_xlsx(p)
                    rv = cells["GANTT Resource view"]
                    for i, (rn, rs) in enumerate(sol.resources.items()):
                        if rv.get((i + 1, 0)) != rn:
                            bad("excel:resource-row-name", leaf, row=i + 1, got=rv.get((i + 1, 0)), want=rn)
                        expected = {}
                        overl = False
                        for (tn, s_, e_) in rs.assignments:
                            if e_ - s_ < 1:
                                overl = True  # zero-length item: cell not specified
                                continue
                            for c_ in range(s_ + 1, e_ + 1):
                                if c_ in expected:
                                    overl = True
                                expected[c_] = tn
                        if overl:
                            continue  # several tasks at the same time on one row (cumulative worker): layout not specified
                        rowcells = {c_: v for (r_, c_), v in rv.items() if r_ == i + 1 and c_ >= 1}
                        # a merged range carries its text in the first cell only
                        got = {}
                        for (r0, c0, r1, c1) in merges["GANTT Resource view"]:
                            if r0 == i + 1:
                                for c_ in range(c0, c1 + 1):
                                    got[c_] = rowcells.get(c0)
                        for c_, v in rowcells.items():
                            got.setdefault(c_, v)
                        if got != expected:
                            bad("excel:resource-row-cells", leaf, resource=rn, got=got, want=expected)
                        for (tn, s_, e_) in rs.assignments:
                            if e_ - s_ > 1 and (i + 1, s_ + 1, i + 1, e_) not in merges["GANTT Resource view"]:
                                bad("excel:resource-merge", leaf, resource=rn, want=(s_ + 1, e_))
                    tv = cells["GANTT Task view"]
                    for i, (tn, ts) in enumerate(sol.tasks.items()):
                        if not ts.scheduled or ts.start < 0:
                            # a task that is not scheduled keeps its row (its name) and has no bar
                            if tv.get((i + 1, 0)) != tn:
                                bad("excel:task-row-name", leaf, row=i + 1, got=tv.get((i + 1, 0)), want=tn, scheduled=False)
                            extra_cells = {c_: v for (r_, c_), v in tv.items() if r_ == i + 1 and c_ >= 1}
                            if extra_cells:
                                bad("excel:bar-for-unscheduled-task", leaf, task=tn, got=extra_cells)
                            continue
                        if tv.get((i + 1, 0)) != tn:
                            bad("excel:task-row-name", leaf, row=i + 1, got=tv.get((i + 1, 0)), want=tn)
                        if ts.end - ts.start >= 1:
                            text = ",".join(ts.assigned_resources)
                            got = {c_: v for (r_, c_), v in tv.items() if r_ == i + 1 and c_ >= 1}
                            if text:
                                if got.get(ts.start + 1) != text or any(c_ < ts.start + 1 or c_ > ts.end for c_ in got):
                                    bad("excel:task-row-cells", leaf, task=tn, got=got, want=(ts.start + 1, ts.end, text))
                            if ts.end - ts.start > 1 and (i + 1, ts.start + 1, i + 1, ts.end) not in merges["GANTT Task view"]:
                                bad("excel:task-merge", leaf, task=tn, want=(ts.start + 1, ts.end))
                    iv = cells["Indicators"]
                    for i, (iname, ival) in enumerate(sol.indicators.items()):
                        if iv.get((i + 1, 0)) != iname or iv.get((i + 1, 1)) != ival:
                            bad("excel:indicator", leaf, got=(iv.get((i + 1, 0)), iv.get((i + 1, 1))), want=(iname, ival))
                except Exception as e:
                    bad("excel:raised", leaf, exc=f"{type(e).__name__}: {e}", colors=colors)
    finally:
        import shutil

        shutil.rmtree(tmp, ignore_errors=True)
    job["_distinct"] = len(seen)
    return out


analysis.POST["exports"] = export_check


def corpus_jobs(tier):
    out = []
    items = C11.corpus(tier)
    cals = C11.calendars(tier)
    for i, (lab, decls, H) in enumerate(items):
        if tier == "quick" and i % 3:
            continue
        cal = cals[i % len(cals)]
        out.append({"program": prog(H, decls, **cal), "families": FAM, "family": "solutions:" + lab.split("/")[-1], "directions": "S", "post": "exports"})
    W2 = [fixed("a", 1), fixed("b", 2, optional=True), worker("w", cost=const_fn(2)), req("a", "w"), req("b", "w")]
    ind = [new("IndicatorResourceUtilization", "i1", resource=R("w")), new("IndicatorResourceCost", "i2", list_of_resources=[R("w")]),
           new("IndicatorNumberTasksAssigned", "i3", resource=R("w")), new("IndicatorFromMathExpression", "i4", name="first start", expression=E(["start", "a"]))]
    out.append({"program": prog(3, W2 + ind), "families": FAM, "family": "solutions:indicators", "directions": "S", "post": "exports"})
    for bcls in ("NonConcurrentBuffer", "ConcurrentBuffer"):
        out.append({"program": prog(3, [fixed("a", 1), fixed("b", 1), zero("z"), worker("w"), req("a", "w"), req("b", "w"),
                                        new(bcls, "bf", name="bf", initial_level=1),
                                        con("TaskUnloadBuffer", "u", task=R("a"), buffer=R("bf"), quantity=1),
                                        con("TaskLoadBuffer", "l", task=R("b"), buffer=R("bf"), quantity=2),
                                        new("IndicatorMaxBufferLevel", "i1", buffer=R("bf"))]), "families": FAM, "family": "solutions:buffers",
                    "directions": "S", "post": "exports"})
    return out


# --------------------------------------------------------------------------- (b) SMT-LIB
def smt_programs(tier):
    from . import C02, C03, C04, C09, C10

    out = []
    for name, mod, stride in (("C02", C02, 9), ("C03", C03, 60), ("C04", C04, 60), ("C09", C09, 60), ("C10", C10, 50)):
        js = mod.jobs(tier)
        st = stride if tier == "quick" else max(1, stride // 6)
        for j in js[::st]:
            out.append((name + ":" + j["family"].split("/")[0], j["program"]))
    W2 = [fixed("a", 1), fixed("b", 2), worker("w"), req("a", "w"), req("b", "w")]
    out.append(("objective", prog(3, W2 + [new("ObjectiveMinimizeMakespan", "o")])))
    out.append(("objective", prog(3, W2 + [new("ObjectiveMinimizeFlowtime", "o")])))
    out.append(("objective", prog(2, W2 + [new("ObjectiveMinimizeMakespan", "o")])))  # infeasible within the horizon
    out.append(("objective", prog(3, [fixed("a", 1), fixed("b", 1), new("ObjectiveTasksStartLatest", "o"), con("TaskPrecedence", "c", task_before=R("a"), task_after=R("b"))])))
    out.append(("objectives2", prog(3, W2 + [new("ObjectiveMinimizeMakespan", "o1"), new("ObjectiveMinimizeFlowtime", "o2")])))
    return out


def smt_job(j):
    import z3
    import processscheduler as ps

    program = j["program"]
    res = {"ok": True, "family": j["family"], "viol": [], "checks": 0, "leaves": 0, "exports": 0}
    try:
        has_obj = any(d["k"] == "new" and d["cls"].startswith("Objective") for d in program["decls"])
        sigs = {}

        def record(what, optimizer, detail):
            debug = optimizer.endswith("+debug")
            optimizer = optimizer.split("+")[0]
            sig = {"dir": "export", "what": what, "optimizer": optimizer}
            skw = {"optimizer": optimizer}
            if debug:
                sig["debug"] = True
                skw["debug"] = True
            k = json.dumps(sig, sort_keys=True)
            e = sigs.setdefault(k, [0, None, sig])
            e[0] += 1
            if e[1] is None:
                e[1] = {"program": program, "what": what, "detail": detail, "expect": "smt2", "solver": skw}

        # (the debug solver tracks its assertions: what it exports must still be the system it checks)
        for optimizer in (("incremental", "optimize", "incremental+debug") if has_obj else ("incremental", "incremental+debug")):
            built = dsl.build(program)
            kw = {"optimizer": optimizer.split("+")[0]}
            if optimizer.endswith("+debug"):
                kw["debug"] = True
            if kw["optimizer"] == "optimize" and sum(1 for d in program["decls"] if d["k"] == "new" and d["cls"].startswith("Objective")) > 1:
                kw["optimize_priority"] = "lex"
            with boot.no_fd2():
                with boot.quiet():
                    solver = ps.SchedulingSolver(problem=built.pb, max_time=30, **kw)
            fd, path = tempfile.mkstemp(suffix=".smt2")
            os.close(fd)
            try:
                try:
                    with boot.no_fd2():
                        with boot.quiet():
                            solver.export_to_smt2(path)
                except Exception as e:
                    record("smt2:raised", optimizer, f"{type(e).__name__}: {e}"[:150])
                    continue
                res["exports"] += 1
                try:
                    parsed = z3.parse_smt2_file(path)
                except Exception as e:
                    record("smt2:does-not-parse", optimizer, str(e)[:150])
                    continue
            finally:
                os.unlink(path)
            prims = ex.primaries(built)
            st1, st2 = ex.Stats(), ex.Stats()
            if kw.get("debug"):
                z3.set_option("verbose", 0)  # (the debug solver switches z3's own trace on, process-wide)
            live = {ex.leaf_key(l) for l in ex.explore(solver._solver, prims, st1)}
            s2 = z3.Solver()
            s2.add(parsed)
            try:
                # an export that denotes the live system is refuted on the same prefixes: its exploration costs what
                # the live one costs; one that prunes nothing is cut off and reported
                exported = {ex.leaf_key(l) for l in ex.explore(s2, prims, st2, max_checks=4 * st1.checks + 2000)}
            except ex.BudgetExceeded:
                res["checks"] += st1.checks + st2.checks
                record("smt2:denotes-a-different-constraint-system", optimizer,
                       f"live admits {len(live)} leaves after {st1.checks} checks; the export still admits prefixes after {st2.checks} checks")
                continue
            res["checks"] += st1.checks + st2.checks
            res["leaves"] += len(live)
            if live != exported:
                extra = sorted(exported - live)[:1]
                missing = sorted(live - exported)[:1]
                record("smt2:denotes-a-different-constraint-system", optimizer,
                       f"live admits {len(live)} leaves, the export {len(exported)}; only in export {extra}; only live {missing}")
        for k, (cnt, inst, sig) in sigs.items():
            res["viol"].append({"sig": sig, "count": cnt, "instance": inst})
    except Exception as e:
        import traceback

        res["ok"] = False
        res["error"] = f"{type(e).__name__}: {e}"[:300]
        res["tb"] = traceback.format_exc()[-1500:]
    return res


# --------------------------------------------------------------------------- (c) JSON round trip of definitions
def roundtrip_cases(tier):
    out = []
    for d in (1, 3):
        for kw in ({}, {"optional": True}, {"release_date": 2, "due_date": 5, "due_date_is_deadline": False}, {"priority": 4, "work_amount": 3}):
            out.append(("FixedDurationTask", dict(name="t", duration=d, **kw)))
    for kw in ({}, {"min_duration": 2}, {"max_duration": 4}, {"allowed_durations": [1, 3]}, {"min_duration": 1, "max_duration": 2, "optional": True, "priority": 0},
               {"release_date": 1, "work_amount": 5}):
        out.append(("VariableDurationTask", dict(name="t", **kw)))
    for kw in ({}, {"optional": True}, {"release_date": 3}, {"due_date": 2, "priority": 2}):
        out.append(("ZeroDurationTask", dict(name="t", **kw)))
    for kw in ({}, {"productivity": 0}, {"productivity": 3}):
        out.append(("Worker", dict(name="x", **kw)))
    out.append(("ConstantFunction", dict(value=3)))
    out.append(("ConstantFunction", dict(value=0)))
    out.append(("LinearFunction", dict(slope=2, intercept=-1)))
    out.append(("LinearFunction", dict(slope=0, intercept=4)))
    out.append(("PolynomialFunction", dict(coefficients=[1, 0, 2])))
    out.append(("PolynomialFunction", dict(coefficients=[3, -2])))
    return out


def roundtrip_job(case):
    import processscheduler as ps

    cls, kw = case
    res = {"ok": True, "cls": cls, "kw": kw, "bad": None}
    try:
        boot.boot()
        pb = ps.SchedulingProblem(name="rt", horizon=10)
        obj = getattr(ps, cls)(**kw)
        js = obj.to_json()
        pb2 = ps.SchedulingProblem(name="rt2", horizon=10)
        if cls.endswith("Function"):
            obj2 = getattr(ps, cls).model_validate_json(js)
        else:
            obj2 = pb2.add_from_json(js)
        fields = [f for f in type(obj).model_fields if f not in ("problem",)]
        diffs = {}
        for f in fields:
            a, b = getattr(obj, f), getattr(obj2, f)
            if f == "cost":
                a, b = getattr(a, "value", a), getattr(b, "value", b)
            if a != b:
                diffs[f] = [repr(a), repr(b)]
        if type(obj2) is not type(obj):
            diffs["type"] = [type(obj).__name__, type(obj2).__name__]
        # the function must compute the same values
        if cls.endswith("Function"):
            for x in (0, 1, 3):
                if obj(x) != obj2(x):
                    diffs[f"value({x})"] = [obj(x), obj2(x)]
        if diffs:
            res["bad"] = diffs
    except Exception as e:
        res["bad"] = {"raised": f"{type(e).__name__}: {e}"[:200]}
    return res


def replay(inst):
    if inst.get("expect") == "smt2":
        r = smt_job({"program": inst["program"], "family": "replay"})
        bad = [v for v in r.get("viol", []) if v["sig"]["what"] == inst["what"] and bool(v["sig"].get("debug")) == bool((inst.get("solver") or {}).get("debug"))]
        print(json.dumps({"violation": inst["what"] if bad else None, "detail": [v["instance"]["detail"] for v in bad][:1], "error": r.get("error")}))
        return 1 if bad else 0
    if inst.get("expect") == "roundtrip":
        r = roundtrip_job(tuple(inst["case"]))
        print(json.dumps({"violation": r["bad"]}))
        return 1 if r["bad"] else 0
    r = analysis.analyze({"program": inst["program"], "families": FAM, "directions": "S", "post": "exports", "all_leaves": True})
    bad = [v for v in r.get("viol", []) if v["sig"].get("what") == inst["what"]]
    print(json.dumps({"violation": inst["what"] if bad else None, "detail": [v["instance"].get("detail") for v in bad][:1], "error": r.get("error")}))
    return 1 if bad else 0


def confirm(inst):
    import subprocess
    import sys

    note = f"{inst.get('what')}: {inst.get('detail')}"
    if inst.get("expect") == "roundtrip":
        cls, kw = inst["case"]
        inst["standalone"] = (f'"""Stand-alone replay generated by /verif: JSON round trip changes {inst["detail"]}"""\nimport processscheduler as ps\n'
                              f"pb = ps.SchedulingProblem(name='rt', horizon=10)\nobj = ps.{cls}(**{kw!r})\njs = obj.to_json()\nprint(js)\n")
    elif inst.get("expect") == "smt2":
        inst["standalone"] = ('"""Stand-alone replay generated by /verif.\n' + note + '\n"""\n' + dsl.gen_source(inst["program"])
                              + f"solver = ps.SchedulingSolver(problem=pb, **{inst['solver']!r})\nsolver.export_to_smt2('/tmp/verif_export.smt2')\n"
                              + "print(z3.parse_smt2_file('/tmp/verif_export.smt2'))\n")
    else:
        from psmc import replay as rp
        inst["standalone"] = rp.standalone_source(inst["program"], [(tuple(k), v) for k, v in inst["leaf"]], None, {}, note=note) + \
            "print(solution.to_json()); print(solution.to_csv()); solution.to_excel_file('/tmp/verif_export.xlsx')\n"
    outs = []
    for _ in range(2):
        p = subprocess.run([sys.executable, "-m", "props.hist_replay", "C16"], input=json.dumps(inst, default=list), capture_output=True,
                           text=True, cwd=run.VERIF, env=dict(os.environ, PYTHONHASHSEED="0"), timeout=300)
        if p.returncode not in (0, 1):
            return False, {"error": p.stderr[-600:]}
        outs.append(p.stdout.strip().splitlines()[-1])
    if outs[0] != outs[1]:
        return False, {"error": "replay not deterministic", "obs": outs}
    o = json.loads(outs[0])
    return bool(o["violation"]), o


def witness(entry):
    import contextlib

    with contextlib.redirect_stdout(io.StringIO()):
        return replay(entry["witness"]) == 1


def main(tier):
    chk = run.Check("C16", tier, RULE)
    chk.assumptions = ASSUME
    distinct = 0
    # (a)
    js = common.rotate(corpus_jobs(tier))
    for i, j in enumerate(js):
        j["want_sample"] = i % 5 == 0
    for status, r in run.pmap(analysis.analyze, js, chunk=1):
        if status == "err" or not r["ok"]:
            chk.error(r if status == "err" else {"error": r["error"], "tb": r.get("tb")})
            continue
        st = r["stats"]
        chk.add(programs=1, states=st["nodes"] + 1, transitions=st["checks"], admitted_leaves=st["admitted"], evaluations=1,
                traces_validated_against_impl=r.get("post_checked", 0))
        chk.cov["solutions_exported"] = chk.cov.get("solutions_exported", 0) + r.get("post_checked", 0)
        chk.family(r["family"], programs=1, admitted=st["admitted"])
        if r.get("sample"):
            chk.sample(r["sample"])
        for v in r["viol"]:
            chk.violation(v["sig"], v["instance"])
            chk.groups[run.jdump(v["sig"])]["count"] += v["count"] - 1
    # (b)
    sj = [{"program": p, "family": "smt2:" + lab} for lab, p in smt_programs(tier)]
    for status, r in run.pmap(smt_job, common.rotate(sj), chunk=2):
        if status == "err" or not r["ok"]:
            chk.error(r if status == "err" else {"error": r["error"], "tb": r.get("tb")})
            continue
        chk.add(programs=1, states=r["leaves"] + 1, transitions=r["checks"], evaluations=r["exports"], traces_validated_against_impl=r["exports"])
        chk.cov["smt2_exports_compared_over_the_box"] = chk.cov.get("smt2_exports_compared_over_the_box", 0) + r["exports"]
        chk.family(r["family"], programs=1, exports=r["exports"])
        for v in r["viol"]:
            chk.violation(v["sig"], v["instance"])
    # (c)
    for status, r in run.pmap(roundtrip_job, roundtrip_cases(tier), chunk=8):
        if status == "err":
            chk.error(r)
            continue
        chk.add(evaluations=1, states=1, transitions=1, traces_validated_against_impl=1)
        chk.cov["json_round_trips"] = chk.cov.get("json_round_trips", 0) + 1
        if r["bad"]:
            chk.violation({"dir": "export", "what": "json-round-trip", "cls": r["cls"], "fields": sorted(r["bad"])},
                          {"case": [r["cls"], r["kw"]], "detail": r["bad"], "expect": "roundtrip", "what": "json-round-trip"})
    chk.cov["distinct_nontrivial"] = chk.cov.get("solutions_exported", 0) + chk.cov.get("smt2_exports_compared_over_the_box", 0)
    return chk.finish(confirm=confirm, witness_runner=witness)
