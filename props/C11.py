"""C11 - the solution object is a faithful, self-consistent report of one schedule (E1 corpus, direction R)."""
import datetime
import itertools

from psmc import dsl, analysis, ref
from psmc.dsl import fixed, var, zero, worker, select, cumul, req, con, prog, R, E, new
from . import common

RULE = ("corpus: tasks of all types (incl. optional zero-duration) x workers / selections / cumulative workers (two tasks at the same "
        "time on a cumulative worker, a task requiring both a worker and a cumulative one) x delay_in/early_out/dynamic x "
        "buffers x delta_time {None, 15 min, 1 day, 36 h} x start_time {None, fixed} x horizon given or free; for EVERY admitted "
        "leaf of the whole box the real solve()/build_solution() runs under the leaf's pins and the returned object is "
        "checked field by field: agreement with the pins, end-start=duration, task view <=> resource view, assignment "
        "interval implied by the requirement, cumulative workers under their own name only, unscheduled tasks without "
        "assignment, horizon, calendar arithmetic; non-trivial = program with at least two distinct reported solutions")
ASSUME = ["z3 answers on fully pinned ground queries are correct", "the schedule a leaf denotes is given by its pins (E1) - the report must be of that schedule",
          "expected assignment intervals come from psmc/ref.py View.busy()"]
FAM = ["task", "resource", "constraint", "buffer"]


def solution_check(program, built, solver, prims, leaves, job):
    out = []
    dd = dsl.decl_by_id(program)
    pa = dsl.effective(program).get("pargs") or {}
    delta = datetime.timedelta(seconds=pa["delta_time"]["$td"]) if pa.get("delta_time") else None
    t0 = datetime.datetime(*pa["start_time"]["$dt"]) if pa.get("start_time") else None
    reported = set()

    def bad(what, leaf, **kw):
        sig = {"dir": "report", "what": what}
        sig.update({k: v for k, v in kw.items() if k in ("cls", "kind")})
        out.append((sig, {"program": program, "leaf": analysis._leaf_list(leaf), "expect": "report", "solver": {}, "what": what,
                          "detail": {k: repr(v) for k, v in kw.items()}}))

    unit_names = set()
    for d in dsl.decls_of(program, "CumulativeWorker"):
        for i in range(d["args"]["size"]):
            unit_names.add(f"{d['args']['name']}_CumulativeWorker_{i + 1}")
    for leaf in leaves:
        view = ref.View(program, leaf)
        sol = analysis.solve_under_pins(solver, prims, leaf)
        if isinstance(sol, analysis.Raised):
            out.append(analysis.raised_violation(program, leaf, sol))
            continue
        if not sol:
            bad("admitted-leaf-not-returned", leaf)
            continue
        wb, cb = view.busy()
        reported.add(repr(sorted((n, t.start, t.end, t.scheduled) for n, t in sol.tasks.items())))
        # expected assignments per reported resource name
        exp = {}
        for wid, lst in wb.items():
            exp[dd[wid]["args"]["name"]] = sorted((dd[t]["args"]["name"], bs, be) for (t, bs, be, _k) in lst)
        for cid, lst in cb.items():
            exp[dd[cid]["args"]["name"]] = sorted((dd[t]["args"]["name"], s, e) for (t, s, e) in lst)
        # resources reported
        if set(sol.resources) != set(exp):
            bad("resource-names", leaf, got=sorted(sol.resources), want=sorted(exp))
        if set(sol.resources) & unit_names:
            bad("unit-worker-reported", leaf)
        for rn, lst in exp.items():
            if rn in sol.resources:
                got = sorted(tuple(a) for a in sol.resources[rn].assignments)
                if got != lst:
                    bad("assignments-differ", leaf, cls=("CumulativeWorker" if any(dd[c]["args"]["name"] == rn for c in cb) else "Worker"),
                        resource=rn, got=got, want=lst)
        for tid, t in view.tasks.items():
            name = t["args"]["name"]
            ts = sol.tasks.get(name)
            if ts is None:
                bad("task-missing", leaf, cls=t["cls"])
                continue
            if ts.scheduled != bool(view.sched[tid]):
                bad("scheduled-flag", leaf, cls=t["cls"], got=ts.scheduled)
            want_res = sorted(rn for rn, lst in exp.items() if any(a[0] == name for a in lst))
            if sorted(ts.assigned_resources) != want_res:
                bad("assigned-resources", leaf, cls=t["cls"], got=sorted(ts.assigned_resources), want=want_res)
            # cross consistency inside the object itself
            listed = sorted(rn for rn, rs in sol.resources.items() if any(a[0] == name for a in rs.assignments))
            if sorted(set(ts.assigned_resources)) != listed:
                bad("task-view-vs-resource-view", leaf, cls=t["cls"], task=name, task_view=sorted(ts.assigned_resources), resource_view=listed)
            if len(ts.assigned_resources) != len(set(ts.assigned_resources)):
                bad("duplicate-assigned-resource", leaf, cls=t["cls"])
            if view.sched[tid]:
                if (ts.start, ts.end) != (view.start[tid], view.end[tid]):
                    bad("times-differ-from-schedule", leaf, cls=t["cls"], got=(ts.start, ts.end))
                if ts.end - ts.start != ts.duration or ts.duration != view.dur[tid]:
                    bad("duration", leaf, cls=t["cls"], got=ts.duration)
                if ts.end > sol.horizon:
                    bad("horizon-before-task-end", leaf, got=sol.horizon)
                if delta is not None:
                    if ts.duration_time != ts.duration * delta:
                        bad("duration_time", leaf, got=ts.duration_time)
                    if t0 is not None:
                        if ts.start_time != t0 + ts.start * delta:
                            bad("start_time", leaf, got=ts.start_time, want=t0 + ts.start * delta)
                        if ts.end_time != t0 + ts.end * delta:
                            bad("end_time", leaf, got=ts.end_time, want=t0 + ts.end * delta)
            else:
                if ts.assigned_resources:
                    bad("unscheduled-task-has-assignment", leaf, cls=t["cls"])
            for k_, a_ in (("optional", bool(t["args"].get("optional"))), ("work_amount", t["args"].get("work_amount", 0)),
                           ("priority", t["args"].get("priority", 1)), ("release_date", t["args"].get("release_date")),
                           ("due_date", t["args"].get("due_date")), ("type", t["cls"])):
                if getattr(ts, k_) != a_:
                    bad("static-field:" + k_, leaf, got=getattr(ts, k_))
        if program.get("horizon") is not None and sol.horizon != program["horizon"]:
            bad("horizon", leaf, got=sol.horizon)
        if program.get("horizon") is None and sol.horizon != leaf.get(("horizon",)):
            bad("horizon", leaf, got=sol.horizon)
    job["_distinct"] = len(reported)
    return out


analysis.POST["solution"] = solution_check


def calendars(tier):
    c = [{}, {"delta_time": {"$td": 900}, "start_time": {"$dt": [2024, 2, 28, 22, 30]}}, {"delta_time": {"$td": 86400}, "start_time": {"$dt": [2024, 2, 27, 0, 0]}},
         # a start time that is not on a whole second
         {"delta_time": {"$td": 60}, "start_time": {"$dt": [2024, 3, 1, 9, 45, 0, 250000]}}]
    if tier in ("thorough", "deep"):
        c += [{"delta_time": {"$td": 129600}, "start_time": {"$dt": [2023, 12, 30, 12, 0]}}, {"delta_time": {"$td": 900}},
              {"delta_time": {"$td": 604800}, "start_time": {"$dt": [2024, 1, 1, 0, 0]}}]
    return c


def corpus(tier):
    """(label, decls, H)"""
    out = []
    T = {"F1": lambda i, **k: fixed(i, 1, **k), "F2": lambda i, **k: fixed(i, 2, **k), "V": lambda i, **k: var(i, max_duration=2, **k),
         "Z": lambda i, **k: zero(i, **k)}
    pairs = [("F1", "F2"), ("F2", "V"), ("Z", "F1"), ("V", "Z")]
    for (x, y) in pairs:
        for oa in (False, True):
            ka = {"optional": True} if oa else {}
            ts = [T[x]("a", **ka), T[y]("b")]
            lab = f"{x}{'o' if oa else ''}{y}"
            out.append((lab + "/bare", ts, 3))
            out.append((lab + "/worker", ts + [worker("w"), req("a", "w"), req("b", "w")], 4))
            out.append((lab + "/2workers", ts + [worker("w"), worker("v"), {"k": "reqs", "task": "a", "res": ["w", "v"]}, req("b", "v")], 3))
            out.append((lab + "/select", ts + [worker("w"), worker("v"), select("s", ["w", "v"]), req("a", "s"), req("b", "w")], 3))
            out.append((lab + "/select-min", ts + [worker("w"), worker("v"), select("s", ["w", "v"], 1, "min"), req("a", "s"), req("b", "s2") if False else req("b", "w")], 3))
            out.append((lab + "/cumul", ts + [cumul("c", 2), req("a", "c"), req("b", "c")], 3))
            out.append((lab + "/cumul+worker", ts + [cumul("c", 2), worker("w"), req("a", "c"), req("a", "w"), req("b", "c")], 3))
    out.append(("delay", [fixed("a", 3), fixed("b", 1), worker("w"), req("a", "w", delay_in=1, early_out=1), req("b", "w")], 4))
    out.append(("delay-optional", [fixed("a", 3, optional=True), fixed("b", 1), worker("w"), req("a", "w", delay_in=2), req("b", "w")], 4))
    out.append(("delay-optional2", [fixed("b", 1), fixed("a", 3, optional=True), worker("w"), req("a", "w", delay_in=3, early_out=0), req("b", "w")], 4))
    # unscheduled optional tasks whose requirement is shifted or dynamic: nothing of them may show up on the worker
    out.append(("delay-optional-var", [var("a", min_duration=1, max_duration=3, optional=True), fixed("b", 1), worker("w"), req("a", "w", delay_in=2), req("b", "w")], 4))
    out.append(("dynamic-optional-var", [var("a", max_duration=2, optional=True), fixed("b", 1), worker("w"), req("a", "w", dynamic=True), req("b", "w")], 3))
    out.append(("dynamic-optional", [fixed("a", 2, optional=True), fixed("b", 1), worker("w"), req("a", "w", dynamic=True), req("b", "w")], 3))
    out.append(("delay2", [var("a", min_duration=2, max_duration=3), worker("w"), req("a", "w", early_out=1)], 4))
    out.append(("dynamic", [fixed("a", 2), fixed("b", 1), worker("w"), worker("v"), req("a", "v"), req("a", "w", dynamic=True), req("b", "w")], 3))
    out.append(("cumul3", [fixed("a", 2), fixed("b", 2), fixed("c", 1), cumul("k", 2), req("a", "k"), req("b", "k"), req("c", "k")], 3))
    # a big cumulative worker: the tenth unit has a two-digit index in its internal name
    out.append(("cumul10", [fixed("a", 1), cumul("k", 10), req("a", "k")], 1))
    out.append(("cumul-same-interval", [fixed("a", 2), fixed("b", 2), cumul("k", 3), req("a", "k"), req("b", "k")], 2))
    out.append(("select-cumul", [fixed("a", 1), fixed("b", 1), cumul("k", 2), worker("w"), req("a", "k"), req("b", "k"), req("b", "w")], 2))
    for bcls in ("NonConcurrentBuffer", "ConcurrentBuffer"):
        out.append(("buffer/" + bcls, [fixed("a", 1), fixed("b", 2, optional=True), worker("w"), req("a", "w"), req("b", "w"),
                                       new(bcls, "bf", name="bf", initial_level=3),
                                       con("TaskUnloadBuffer", "u0", task=R("a"), buffer=R("bf"), quantity=1)], 3))
    out.append(("late-deadline", [fixed("a", 2, due_date=6), fixed("b", 1, due_date=4, release_date=1), worker("w"), req("a", "w"), req("b", "w")], 4))
    out.append(("attrs", [fixed("a", 1, priority=3, work_amount=0, release_date=1, due_date=4), var("b", max_duration=2, due_date=2, due_date_is_deadline=False, priority=0),
                          worker("w", productivity=2), req("a", "w")], 4))
    return out


def jobs(tier):
    out = []
    cals = calendars(tier)
    items = corpus(tier)
    for i, (lab, decls, H) in enumerate(items):
        for ci, cal in enumerate(cals):
            if tier == "quick" and ci and (i + ci) % 3:
                continue
            out.append({"program": prog(H, decls, **cal), "families": FAM, "family": lab.split("/")[-1] if "/" in lab else lab,
                        "directions": "S", "post": "solution", "prim_opts": {"busy_prims": False}})
        # the calendar assigned to the problem after the solver object was created (it is read when solutions are built)
        if i % (6 if tier == "quick" else 2) == 0:
            cal = cals[1 + i % (len(cals) - 1)]
            p_ = prog(H, decls + [dsl.setattr_("$pb", k_, v_) for k_, v_ in cal.items()])
            p_["early_solver"] = {"max_time": 30}
            out.append({"program": p_, "families": FAM, "family": "calendar-assigned-after-the-solver", "directions": "S", "post": "solution",
                        "prim_opts": {"busy_prims": False}})
        # free horizon
        if i % (4 if tier == "quick" else 1) == 0:
            out.append({"program": prog(None, decls, H=min(H, 3)), "families": FAM, "family": "free-horizon", "directions": "S", "post": "solution"})
    return out


def confirm(inst):
    if inst.get("expect") in ("accept", "reject"):
        return common.confirm_instance(inst)
    from psmc import run, replay
    obs, err = run.fresh_replay({"program": inst["program"], "leaf": inst["leaf"], "solver": {}, "full": True})
    inst["standalone"] = replay.standalone_source(inst["program"], [(tuple(k), v) for k, v in inst["leaf"]], None, {},
                                                  note=f"report defect: {inst['what']} {inst.get('detail')}; inspect `solution` after running")
    if err or obs["result"] != "solution":
        return False, err or obs
    # the in-process observation was made through solve()/build_solution() on the real object; the fresh run must return a solution of the same pins
    return True, obs


def witness(entry):
    w = entry["witness"]
    r = analysis.analyze({"program": w["program"], "families": FAM, "directions": "S", "post": "solution"})
    from psmc import run
    return any(run.sig_matches(entry["match"], v["sig"]) for v in r.get("viol", []))


def main(tier):
    js = jobs(common.level("C11", tier))
    if common.level("C11", tier) == "deep":
        js = common.widen(js, by=(1, 2, 3))
    return common.run_space_check("C11", tier, js, RULE, ASSUME, budget_s=480 if tier == "quick" else 3000,
                                  confirm=confirm, witness=witness)
