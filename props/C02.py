"""C02 - resource capacity, assignment, selection and work amount (E1, direction S)."""
import itertools

from psmc import dsl
from psmc.dsl import fixed, var, zero, worker, select, cumul, req, con, prog, R, E, new
from . import common

RULE = ("programs: 2-3 task scenes on one worker / two workers / delay_in,early_out in 0..2 / dynamic assignments / "
        "SelectWorkers over 2-3 workers with every n and kind / CumulativeWorker sizes 2-3 with 2-4 tasks / productivity x "
        "work_amount grids; box = task times in [-1,H+1], durations, scheduled flags, selection flags, dynamic busy bounds; "
        "every admitted leaf is judged by no-overlap, span, count, capacity and work-amount clauses; the reported solution of "
        "admitted leaves is additionally checked against capacity (see C11); non-trivial = admitted and refuted prefixes")
ASSUME = ["z3 answers on fully pinned ground queries are correct", "reference clauses resource_clauses in psmc/ref.py",
          "unit-worker choice inside a CumulativeWorker is existential (internal detail)"]


def tasks_variants(n, tier):
    """Lists of n task decls."""
    pool = [lambda i: fixed(i, 1), lambda i: fixed(i, 2), lambda i: var(i, min_duration=1, max_duration=2),
            lambda i: fixed(i, 1, optional=True), lambda i: zero(i), lambda i: var(i, max_duration=2, optional=True)]
    ids = ["a", "b", "c", "d"][:n]
    combos = list(itertools.combinations_with_replacement(range(len(pool)), n))
    if tier == "quick":
        combos = combos[::2] if n == 2 else combos[::6]
    elif n >= 3:
        combos = combos[::2]
    return [[pool[k](i) for k, i in zip(c, ids)] for c in combos]


def jobs(tier):
    out = []
    H = 4
    fam = ["task", "resource"]
    # 1. one worker, 2-3 tasks, static
    for n in (2, 3):
        for ts in tasks_variants(n, tier):
            ids = [t["id"] for t in ts]
            out.append({"program": prog(H, ts + [worker("w")] + [req(i, "w") for i in ids]), "families": fam, "family": "one-worker"})
    # 2. two workers both required by a; b on one of them
    for ts in tasks_variants(2, tier):
        out.append({"program": prog(H, ts + [worker("w1"), worker("w2"), req("a", "w1"), req("a", "w2"), req("b", "w2")]),
                    "families": fam, "family": "two-workers"})
        out.append({"program": prog(H, ts + [worker("w1"), worker("w2"), {"k": "reqs", "task": "a", "res": ["w1", "w2"]}, req("b", "w1")]),
                    "families": fam, "family": "two-workers"})
    # 3. delay_in / early_out
    for di, eo in itertools.product((0, 1, 2), (0, 1, 2)):
        if di == eo == 0:
            continue
        for ts in ([fixed("a", 2), fixed("b", 1)], [var("a", min_duration=1, max_duration=3), fixed("b", 2)],
                   [fixed("a", 3, optional=True), fixed("b", 1)]):
            out.append({"program": prog(H, ts + [worker("w"), req("a", "w", delay_in=di, early_out=eo), req("b", "w")]),
                        "families": fam, "family": "delay"})
    # 4. dynamic
    for ts in ([fixed("a", 2), fixed("b", 1)], [fixed("a", 3), fixed("b", 2)], [var("a", max_duration=3), fixed("b", 1)],
               [fixed("a", 2, optional=True), fixed("b", 2)]):
        out.append({"program": prog(H, ts + [worker("w"), req("a", "w", dynamic=True), req("b", "w")]), "families": fam, "family": "dynamic"})
        out.append({"program": prog(H, ts + [worker("w"), worker("v"), req("a", "v"), req("a", "w", dynamic=True), req("b", "w")]),
                    "families": fam, "family": "dynamic"})
    out.append({"program": prog(3, [fixed("a", 2), fixed("b", 2), worker("w"), req("a", "w", dynamic=True), req("b", "w", dynamic=True)]),
                "families": fam, "family": "dynamic"})
    # 5. selections
    for nw in (2, 3):
        ws = [f"w{i}" for i in range(1, nw + 1)]
        for n in range(1, nw + 1):
            for kind in ("exact", "min", "max"):
                for ts in ([fixed("a", 2), fixed("b", 1)], [fixed("a", 1, optional=True), fixed("b", 2)], [var("a", min_duration=1, max_duration=2), fixed("b", 2)]):
                    base = ts + [worker(w) for w in ws]
                    # a selects among ws, b needs w1
                    out.append({"program": prog(H if nw == 2 else 3, base + [select("s", ws, n, kind), req("a", "s"), req("b", "w1")]),
                                "families": fam, "family": "select"})
                # both tasks select
                if nw == 2 or tier in ("thorough", "deep"):
                    out.append({"program": prog(3, [fixed("a", 2), fixed("b", 2)] + [worker(w) for w in ws] +
                                                [select("s", ws, n, kind), select("r", ws, 1, "exact"), req("a", "s"), req("b", "r")]),
                                "families": fam, "family": "select2"})
    # 6. cumulative workers
    for size in (2, 3):
        for nt in (2, 3, 4):
            if nt > size + 1:
                continue
            ids = ["a", "b", "c", "d"][:nt]
            for durs in ([1] * nt, [2] * nt, [2, 1, 1, 2][:nt]):
                Hc = 3 if nt >= 3 else 4
                ts = [fixed(i, d) for i, d in zip(ids, durs)]
                out.append({"program": prog(Hc, ts + [cumul("c1", size)] + [req(i, "c1") for i in ids]), "families": fam, "family": "cumulative"})
    out.append({"program": prog(4, [fixed("a", 2), fixed("b", 2, optional=True), var("c", max_duration=2), cumul("c1", 2),
                                    req("a", "c1"), req("b", "c1"), req("c", "c1")]), "families": fam, "family": "cumulative"})
    out.append({"program": prog(4, [fixed("a", 2), fixed("b", 2), cumul("c1", 2), worker("w"), req("a", "c1"), req("b", "c1"),
                                    req("a", "w"), req("b", "w")]), "families": fam, "family": "cumulative"})
    # 6b. release / due dates on tasks that share a worker (time windows never relax the capacity rule)
    for r, d_, dl in itertools.product((1, 2), (1, 2, 3), (False, True)):
        a = fixed("a", 2, due_date=d_, due_date_is_deadline=dl)
        b = fixed("b", 1, release_date=r)
        out.append({"program": prog(H, [a, b, worker("w"), req("a", "w"), req("b", "w")]), "families": fam, "family": "dates-on-worker"})
        if r == 1:
            out.append({"program": prog(H, [a, b, cumul("c1", 2), fixed("c", 2), req("a", "c1"), req("b", "c1"), req("c", "c1")]), "families": fam, "family": "dates-on-cumulative"})
            out.append({"program": prog(H, [a, b, worker("w"), worker("v"), select("s", ["w", "v"]), req("a", "s"), req("b", "w")]), "families": fam, "family": "dates-on-select"})
    # 6c. work amount on a cumulative worker: the declared productivity bounds what it can contribute
    for size, p_, wa in itertools.product((2, 3), (1, 2, 3), (2, 5)):
        out.append({"program": prog(3, [var("a", work_amount=wa, max_duration=3), cumul("c1", size, productivity=p_), req("a", "c1")]), "families": fam, "family": "work-cumulative"})
    # 6d. several tasks with a work amount (each one must reach its own amount with its own workers)
    for wa1, wa2 in ((2, 3), (3, 1), (2, 2)):
        out.append({"program": prog(3, [var("a", work_amount=wa1, max_duration=3), var("b", work_amount=wa2, max_duration=3), worker("w1"), worker("w2", productivity=2),
                                        req("a", "w1"), req("b", "w2")]), "families": fam, "family": "work-two-tasks"})
        out.append({"program": prog(3, [var("a", work_amount=wa1, max_duration=3), fixed("c", 1), var("b", work_amount=wa2, max_duration=3), worker("w1"),
                                        req("a", "w1"), req("c", "w1"), req("b", "w1")]), "families": fam, "family": "work-two-tasks"})
    # 7. work amounts and productivities
    prods = (0, 1, 2, 3) if tier in ("thorough", "deep") else (0, 1, 2)
    for p1, p2 in itertools.product(prods, prods):
        for wa in ((1, 4, 6) if tier in ("thorough", "deep") else (1, 4)):
            t = var("a", work_amount=wa)
            out.append({"program": prog(H, [t, worker("w1", productivity=p1), worker("w2", productivity=p2), req("a", "w1"), req("a", "w2")]),
                        "families": fam, "family": "work"})
            out.append({"program": prog(H, [t, worker("w1", productivity=p1), worker("w2", productivity=p2), select("s", ["w1", "w2"], 1, "min"), req("a", "s")]),
                        "families": fam, "family": "work-select"})
            out.append({"program": prog(H, [t, worker("w1", productivity=p1), worker("w2", productivity=p2), req("a", "w1"), req("a", "w2", dynamic=True)]),
                        "families": fam, "family": "work-dynamic"})
    # optional tasks with a work amount: scheduled ones must still reach it
    for p1 in (1, 2):
        for wa in (2, 4):
            for t in (var("a", work_amount=wa, optional=True), var("a", work_amount=wa, optional=True, max_duration=3)):
                out.append({"program": prog(H, [t, worker("w1", productivity=p1), req("a", "w1")]), "families": fam, "family": "work-optional"})
                out.append({"program": prog(H, [t, fixed("b", 1), worker("w1", productivity=p1), worker("w2", productivity=2),
                                                select("s", ["w1", "w2"], 1, "exact"), req("a", "s"), req("b", "w1")]),
                            "families": fam, "family": "work-optional"})
    # a productivity assigned after the worker was required: the value at solve time counts
    for p0, p1 in ((3, 1), (1, 2), (2, 0)):
        for wa in (2, 4):
            out.append({"program": prog(H, [var("a", work_amount=wa), worker("w1", productivity=p0), req("a", "w1"), dsl.setattr_("w1", "productivity", p1)]),
                        "families": fam, "family": "work-productivity-assigned-later"})
            out.append({"program": prog(H, [var("a", work_amount=wa), worker("w1", productivity=p0), worker("w2", productivity=1), select("s", ["w1", "w2"], 1, "min"), req("a", "s"),
                                            dsl.setattr_("w1", "productivity", p1)]), "families": fam, "family": "work-productivity-assigned-later"})
    # one task with two alternative selections / two cumulative workers / one of each: every one keeps its own count
    W4 = [worker(f"w{i}") for i in range(1, 5)]
    for n1, k1, n2, k2 in ((1, "exact", 1, "exact"), (2, "exact", 1, "min"), (1, "min", 2, "max"), (1, "max", 1, "exact")):
        out.append({"program": prog(3, [fixed("a", 2), fixed("b", 1)] + W4 + [select("s1", ["w1", "w2"], n1, k1), select("s2", ["w3", "w4"], n2, k2),
                                                                             req("a", "s1"), req("a", "s2"), req("b", "w1"), req("b", "w3")]),
                    "families": fam, "family": "two-selections-on-one-task"})
    out.append({"program": prog(3, [fixed("a", 2), fixed("b", 2), fixed("c", 2), cumul("c1", 2), cumul("c2", 2)] + [req(t, c) for t in "abc" for c in ("c1", "c2")]),
                "families": fam, "family": "two-cumulative-on-one-task"})
    out.append({"program": prog(3, [fixed("a", 2), fixed("b", 2), fixed("c", 1), cumul("c1", 2), worker("w1"), worker("w2"), select("s1", ["w1", "w2"], 1, "exact"),
                                    req("a", "c1"), req("a", "s1"), req("b", "c1"), req("b", "w1"), req("c", "c1")]),
                "families": fam, "family": "selection-and-cumulative-on-one-task"})
    for wa in (2, 3):
        out.append({"program": prog(H, [fixed("a", 2, work_amount=wa), worker("w1", productivity=1), req("a", "w1")]), "families": fam, "family": "work"})
        out.append({"program": prog(H, [fixed("a", 2, work_amount=wa, optional=True), fixed("b", 1), worker("w1", productivity=2), req("a", "w1"), req("b", "w1")]),
                    "families": fam, "family": "work"})
    return out


def main(tier):
    from . import alpha
    lvl = common.level("C02", tier)
    js = jobs(lvl)
    for (lab, kind, p_) in alpha.interaction_programs(lvl):
        if kind in ("resource0", "resource"):
            js.append({"program": p_, "families": ["task", "resource"], "family": "interaction:" + lab.split("/")[1]})
    if lvl == "deep":
        js = common.widen(js, by=(1, 2))
    base = list(js)
    js += common.staged(base, stride=4 if tier == "quick" else 1, kinds=("solve", "init", "older"))
    js += common.early(base, stride=5 if tier == "quick" else 2)
    for j in js:
        # the busy bounds of every assignment are explored too: the interval each worker is held
        # must be the one the requirement implies (static, delayed, selected) or lie inside the task (dynamic)
        j["prim_opts"] = {"busy_prims": True}
    return common.run_space_check("C02", tier, js, RULE, ASSUME, budget_s=480 if tier == "quick" else 3000)
