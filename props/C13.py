"""C13 - a solver object stays truthful across repeated and mixed calls (E3)."""
import itertools
import json

from psmc import boot, dsl, run, history as hs, ctl, ref
from psmc.dsl import fixed, var, zero, worker, select, cumul, req, con, prog, R, E, new
from . import common, C12

RULE = ("all call sequences up to depth 4 (quick) / 5 (thorough; 4 on the larger programs) over {initialize, export_to_smt2, solve, "
        "find_another_solution, find_another_solution_for_variable(v)} on ONE SchedulingSolver, on a feasible and an infeasible "
        "plain program, single-objective min and max programs under the incremental optimiser (max_iter None/1/2) and under "
        "z3.Optimize, and a two-objective program under incremental / optimize+weight / optimize+lex; every observation is "
        "judged by the protocol model over the E1-computed admitted set (solve returns a member compatible with all blocking "
        "clauses whenever one exists - an optimal one when uninterrupted; another before any solve raises the documented "
        "error); after each history the problem object's registries must be unchanged and a second solver on the same "
        "problem must still work; non-trivial = distinct canonical protocol states reached")
ASSUME = ["A(P) from E1 (z3 trusted on pinned ground queries)", "objective value of a leaf from the reference (psmc/ref.py) / makespan = latest end",
          "pareto mode is excluded (documented to end with failure by design)"]


def obj_fn(program):
    """(kind, fn(leaf)->value) for the program's objective(s) (weighted sum if several), or None."""
    objs = [d for d in program["decls"] if d["k"] == "new" and d["cls"].startswith("Objective")]
    if not objs:
        return None

    def one(d):
        cls = d["cls"]
        kind = "max" if cls in ("ObjectiveTasksStartLatest", "ObjectiveMaximizeResourceUtilization", "ObjectiveMaximizeMaxBufferLevel",
                                "ObjectiveMaximizeIndicator") or (cls == "Objective" and d["args"].get("kind") == "maximize") else "min"

        def fn(leaf):
            view = ref.View(program, leaf)
            if cls == "ObjectiveMinimizeMakespan":
                if ("horizon",) in leaf:
                    return leaf[("horizon",)]  # free horizon: the horizon unknown itself is part of the schedule
                ends = [view.end[t] for t in view.tasks if view.sched[t]]
                return max(ends) if ends else 0
            if cls in ("ObjectiveMinimizeIndicator", "ObjectiveMaximizeIndicator", "Objective"):
                vals = ref.indicator_values(view, view.dd[d["args"]["target"]["$"]])
            else:
                vals = ref.indicator_values(view, d)
            return None if vals is None else min(vals)
        w = d["args"].get("weight", 1)
        for d2 in program["decls"]:
            if d2["k"] == "set" and d2["obj"] == d.get("id") and d2["attr"] == "weight":
                w = d2["value"]  # assigned after construction: the weight at solve time counts
        return kind, fn, w

    parts = [one(d) for d in objs]
    kind = parts[0][0]
    if len(parts) == 1:
        return kind, parts[0][1]
    def total(leaf):
        vs = [(w, f(leaf)) for (_k, f, w) in parts]
        return None if any(v is None for _w, v in vs) else sum(w * v for w, v in vs)

    return kind, total


def programs(tier):
    out = []
    P = lambda *d, H=3: prog(H, list(d))
    base2 = [fixed("a", 1), fixed("b", 2), worker("w"), req("a", "w"), req("b", "w")]
    menu2 = [["start", "a"], ["end", "b"]]
    out.append(("plain-feasible", P(fixed("a", 1), fixed("b", 1), H=2), {}, [["start", "a"]], 5))
    out.append(("plain-feasible/debug", P(fixed("a", 1), fixed("b", 1), H=2), {"debug": True}, [["start", "a"]], 3))
    # random initial values: another option that changes how models are found, never which ones exist
    out.append(("plain-feasible/random_values", P(fixed("a", 1), fixed("b", 1), H=2), {"random_values": True}, [["start", "a"]], 3))
    # the variable behind the objective itself as the variable to move away from, after an optimisation cut short ...
    ia = new("IndicatorFromMathExpression", "i", name="i", expression=E(["start", "a"]))
    out.append(("max-indicator/incremental/max_iter=1", P(fixed("a", 1), ia, new("ObjectiveMaximizeIndicator", "o", target=R("i")), H=3), {"max_iter": 1}, [["ind", "i"]], 4))
    out.append(("min-indicator/incremental", P(fixed("a", 1), ia, new("ObjectiveMinimizeIndicator", "o", target=R("i"), weight=1), H=3), {}, [["ind", "i"]], 4))
    # ... and one of two objectives' own variable (the weighted sum is what was optimised, not this one)
    ib = new("IndicatorFromMathExpression", "i2", name="i2", expression=E(["start", "b"]))
    out.append(("two-objectives/own-variable", P(fixed("a", 2), fixed("b", 2), worker("w"), req("a", "w"), req("b", "w"), ia, ib,
                                                 new("ObjectiveMinimizeIndicator", "o1", target=R("i"), weight=1), new("ObjectiveMinimizeIndicator", "o2", target=R("i2"), weight=2), H=5),
                {}, [["ind", "i"]], 4))
    # a solver built for a given logic goes through another construction path (z3.SolverFor)
    out.append(("one-schedule/logics", P(fixed("a", 2), H=2), {"logics": "QF_LIA"}, [["start", "a"]], 4))
    out.append(("two-schedules/logics", P(fixed("a", 1), H=2), {"logics": "QF_IDL"}, [["start", "a"]], 5))
    out.append(("plain-infeasible", P(fixed("a", 2), con("TaskEndBefore", "c", task=R("a"), value=1), H=2), {}, [["start", "a"]], 4))
    out.append(("plain-optional", P(fixed("a", 1, optional=True), fixed("b", 1), H=2), {}, [["start", "b"], ["start", "a"]], 4))
    out.append(("optional-objective", P(fixed("a", 2, optional=True), new("ObjectiveMinimizeFlowtime", "o"), H=2), {}, [["start", "a"]], 4))
    out.append(("plain-optional-forced", P(fixed("a", 1, optional=True), con("OptionalTaskForceSchedule", "r", task=R("a"), to_be_scheduled=True), H=3),
                {}, [], 5))
    for mi in (None, 1, 2):
        kw = {} if mi is None else {"max_iter": mi}
        out.append((f"min-makespan/incremental/max_iter={mi}", P(*base2, new("ObjectiveMinimizeMakespan", "o")), kw, menu2, 4))
    out.append(("max-startlatest/incremental", P(fixed("a", 1), fixed("b", 1), new("ObjectiveTasksStartLatest", "o"), H=2), {}, [["start", "a"]], 4))
    out.append(("max-startlatest/incremental/max_iter=1", P(fixed("a", 1), fixed("b", 1), new("ObjectiveTasksStartLatest", "o"), H=2), {"max_iter": 1}, [["start", "a"]], 4))
    out.append(("max-bounded-indicator/incremental", P(fixed("a", 1), new("IndicatorFromMathExpression", "i", name="i", expression=E(["start", "a"]), bounds=(0, 2)),
                                                      new("ObjectiveMaximizeIndicator", "o", target=R("i")), H=3), {}, [["start", "a"]], 4))
    out.append(("min-flowtime/incremental", P(*base2, new("ObjectiveMinimizeFlowtime", "o")), {}, menu2, 4))
    out.append(("min-makespan/optimize", P(*base2, new("ObjectiveMinimizeMakespan", "o")), {"optimizer": "optimize"}, menu2, 4))
    out.append(("max-startlatest/optimize", P(fixed("a", 1), fixed("b", 1), new("ObjectiveTasksStartLatest", "o"), H=2), {"optimizer": "optimize"}, [["start", "a"]], 4))
    two = [fixed("a", 1), fixed("b", 2), worker("w"), req("a", "w"), req("b", "w"), new("ObjectiveMinimizeMakespan", "o1"), new("ObjectiveMinimizeFlowtime", "o2")]
    out.append(("two-objectives/incremental", P(*two), {}, [["start", "a"]], 3))
    out.append(("two-objectives/optimize-weight", P(*two), {"optimizer": "optimize", "optimize_priority": "weight"}, [["start", "a"]], 3))
    out.append(("two-objectives/optimize-lex", P(*two), {"optimizer": "optimize", "optimize_priority": "lex"}, [["start", "a"]], 3))
    return out


def judge(program, leaves, obs, objective, interrupted):
    p = hs.Protocol(program, leaves, objective=None if interrupted else objective)
    for i, o in enumerate(obs):
        why = p.step(o)
        if why == "UNSPEC":
            return None, p
        if why:
            return (i, why), p
    return False, p


def job(j):
    import processscheduler as ps

    program, skw, menu, depth, tier = j["program"], j["solver"], j["menu"], j["depth"], j["tier"]
    res = {"ok": True, "family": j["family"], "viol": [], "runs": 0, "calls": 0, "states": set(), "outcomes": set()}
    try:
        leaves, stats, prims, built, solver = hs.admitted_set(program)
        res["e1"] = {"admitted": len(leaves), "checks": stats.checks}
        objective = obj_fn(program)
        lex = skw.get("optimize_priority") == "lex"
        interrupted = skw.get("max_iter") is not None or lex
        sigs = {}

        def record(hist, obs, bad, extra=None):
            i, why = bad
            ev = obs[i]["ev"] if i < len(obs) else ["end"]
            o = obs[i] if i < len(obs) else {"kind": "end"}
            kind = ("raised" if o["kind"] == "raise" else "failed-although-valid-schedules-remain" if o["kind"] == "false" else
                    "outside-admitted-set" if "outside" in why else "not-optimal" if "achievable" in why else
                    "problem-mutated" if "registr" in why else "second-solver" if "second solver" in why else "repeated-or-excluded")
            prior = sorted({e[0] for e in hist[:i]})
            sig = {"dir": "protocol", "call": ev[0], "what": kind, "optimizer": skw.get("optimizer", "incremental"),
                   "objectives": len([d for d in program["decls"] if d["k"] == "new" and d["cls"].startswith("Objective")]),
                   "max_iter": skw.get("max_iter")}
            k = json.dumps(sig, sort_keys=True)
            e = sigs.setdefault(k, [0, None, sig])
            e[0] += 1
            cand = {"program": program, "history": hist, "solver": skw, "step": i, "why": why, "expect": "protocol",
                    "observations": [dict(x, timing=list(x["timing"]) if x.get("timing") else None) for x in obs]}
            if e[1] is None or len(hist) < len(e[1]["history"]):
                e[1] = cand

        alphabet = [["initialize"], ["export"], ["solve"], ["another"]] + [["another_for", v] for v in menu]
        if tier == "quick":
            depth = min(depth, 4 if (len(leaves) <= 4 or j["family"] == "min-makespan/incremental/max_iter=None") else 3)
        for L in range(1, depth + 1):
            for seq in itertools.product(alphabet, repeat=L):
                h = [list(e) for e in seq]
                n_reg = None
                obs, env, sv, b = hs.run_history(program, h, solver_kw=skw, leaves=leaves, steer="lazy")
                res["runs"] += 1
                res["calls"] += len(h)
                res["outcomes"].add(repr([(o["kind"], o.get("timing")) for o in obs]))
                bad, p = judge(program, leaves, obs, objective, interrupted)
                res["states"].add((p.key(), sv._initialized))
                if bad:
                    record(h, obs, bad)
                    continue
                # the problem object must be left untouched, and usable by a second solver
                want = _registry_sizes(program)
                got = (len(b.pb.tasks), len(b.pb.constraints), len(b.pb.indicators), len(b.pb.objectives), len(b.pb.buffers))
                if got != want:
                    record(h, obs, (len(obs), f"problem registries changed: {want} -> {got} (tasks, constraints, indicators, objectives, buffers)"))
                    continue
                if L <= 2:
                    try:
                        import contextlib
                        with (boot.no_fd2() if skw.get("debug") else contextlib.nullcontext()), boot.quiet():
                            s2 = ps.SchedulingSolver(problem=b.pb, **dict(skw, max_time=30))
                            r2 = s2.solve()
                        if not r2 and leaves:
                            record(h, obs, (len(obs), "second solver on the same problem reports no solution"))
                        elif r2 and hs.timing_of_solution(program, r2) not in p.timings:
                            record(h, obs, (len(obs), "second solver on the same problem returned a schedule outside the admitted set"))
                        elif r2 and objective is not None and not interrupted:
                            # a fresh solver knows nothing of what the first one excluded: it returns an optimum of the problem
                            kind_, fn_ = objective
                            vals_ = [fn_(l_) for l_ in leaves]
                            best_ = min(vals_) if kind_ == "min" else max(vals_)
                            got_ = [fn_(l_) for l_ in p.timings[hs.timing_of_solution(program, r2)]]
                            if best_ not in got_:
                                record(h, obs, (len(obs), f"second solver on the same problem returned objective {sorted(set(got_))} but {best_} is achievable"))
                    except Exception as ex_:
                        record(h, obs, (len(obs), f"second solver on the same problem raised {type(ex_).__name__}: {str(ex_)[:80]}"))
        # exhaust, re-initialise, enumerate again: solve, k exclusions of a variable's value, initialize, solve, j further
        # solutions - deeper than the full enumeration above reaches
        if j.get("reinit") and menu:
            for k in range(1, 4):
                for jn in range(0, 4):
                    h = [["solve"]] + [["another_for", menu[0]]] * k + [["initialize"], ["solve"]] + [["another"]] * jn
                    obs, env, sv, b = hs.run_history(program, h, solver_kw=skw, leaves=leaves, steer="lazy")
                    res["runs"] += 1
                    res["calls"] += len(h)
                    res["outcomes"].add(repr([(o["kind"], o.get("timing")) for o in obs]))
                    bad, p = judge(program, leaves, obs, objective, interrupted)
                    res["states"].add((p.key(), sv._initialized, "reinit"))
                    if bad:
                        record(h, obs, bad)
        # side activities: every history up to depth 3 with ONE read-only report of the solver, or the declaration
        # of another problem, inserted at every position after the first call and before the last one - none of them
        # may change what the calls answer
        if j.get("side"):
            base_depth = 3
            for L in range(2, base_depth + 1):
                for seq in itertools.product(alphabet, repeat=L):
                    if L == 3 and tier == "quick" and seq[0][0] != "solve":
                        continue  # (quick: the three-call histories that start by solving)
                    for pos in range(1, L):
                        for side in hs.SIDE_OPS:
                            h = [list(e) for e in seq[:pos]] + [[side]] + [list(e) for e in seq[pos:]]
                            obs, env, sv, b = hs.run_history(program, h, solver_kw=skw, leaves=leaves, steer="lazy")
                            res["runs"] += 1
                            res["calls"] += len(h)
                            res["outcomes"].add(repr([(o["kind"], o.get("timing")) for o in obs]))
                            bad, p = judge(program, leaves, obs, objective, interrupted)
                            res["states"].add((p.key(), sv._initialized, side))
                            if bad:
                                record(h, obs, bad)
        for k, (cnt, inst, sig) in sigs.items():
            res["viol"].append({"sig": sig, "count": cnt, "instance": inst})
        if j.get("want_sample"):
            res["sample"] = {"source": built.src, "solver": skw, "alphabet": alphabet, "depth": depth, "admitted": len(leaves)}
    except Exception as e:
        import traceback

        res["ok"] = False
        res["error"] = f"{type(e).__name__}: {e}"[:300]
        res["tb"] = traceback.format_exc()[-1500:]
    res["states"] = len(res["states"])
    res["outcomes"] = len(res["outcomes"])
    return res


_reg_cache = {}


def _registry_sizes(program):
    k = dsl.pkey(program)
    if k not in _reg_cache:
        b = dsl.build(program)
        _reg_cache[k] = (len(b.pb.tasks), len(b.pb.constraints), len(b.pb.indicators), len(b.pb.objectives), len(b.pb.buffers))
    return _reg_cache[k]


def replay(inst):
    program = inst["program"]
    skw = inst.get("solver") or {}
    leaves, *_ = hs.admitted_set(program)
    r = job({"program": program, "solver": skw, "menu": [], "depth": 0, "tier": "quick", "family": "replay"})
    obs, env, sv, b = hs.run_history(program, inst["history"], solver_kw=skw, leaves=leaves, steer="lazy")
    objective = obj_fn(program)
    interrupted = skw.get("max_iter") is not None or skw.get("optimize_priority") == "lex"
    bad, p = judge(program, leaves, obs, objective, interrupted)
    why = None
    if bad:
        why = bad
    else:
        want = _registry_sizes(program)
        got = (len(b.pb.tasks), len(b.pb.constraints), len(b.pb.indicators), len(b.pb.objectives), len(b.pb.buffers))
        if got != want:
            why = (len(obs), f"problem registries changed: {want} -> {got}")
        else:
            import processscheduler as ps
            try:
                with boot.quiet():
                    r2 = ps.SchedulingSolver(problem=b.pb, **dict(skw, max_time=30)).solve()
                if not r2 and leaves:
                    why = (len(obs), "second solver on the same problem reports no solution")
            except Exception as ex_:
                why = (len(obs), f"second solver on the same problem raised {type(ex_).__name__}")
    print(json.dumps({"violation": why, "observations": [[o["ev"][0], o["kind"], str(o.get("timing"))[:160]] for o in obs]}, default=list))
    return 1 if why else 0


def confirm(inst):
    import subprocess
    import sys
    import os

    inst["standalone"] = C12.standalone(inst).replace("ps.SchedulingSolver(problem=pb)",
                                                      "ps.SchedulingSolver(problem=pb" + "".join(f", {k}={v!r}" for k, v in (inst.get("solver") or {}).items()) + ")")
    outs = []
    for _ in range(2):
        p = subprocess.run([sys.executable, "-m", "props.hist_replay", "C13"], input=json.dumps(inst, default=list), capture_output=True,
                           text=True, cwd=run.VERIF, env=dict(os.environ, PYTHONHASHSEED="0"), timeout=300)
        if p.returncode not in (0, 1):
            return False, {"error": p.stderr[-600:]}
        outs.append(p.stdout.strip().splitlines()[-1])
    if outs[0] != outs[1]:
        return False, {"error": "replay not deterministic", "obs": outs}
    o = json.loads(outs[0])
    return bool(o["violation"]), o


def witness(entry):
    w = entry["witness"]
    import io, contextlib
    buf = io.StringIO()
    with contextlib.redirect_stdout(buf):
        rc = replay(w)
    return rc == 1


def main(tier):
    chk = run.Check("C13", tier, RULE)
    chk.assumptions = ASSUME
    js = []
    for i, (lab, program, skw, menu, depth) in enumerate(programs(tier)):
        js.append({"program": program, "solver": skw, "menu": menu, "depth": depth if tier == "thorough" else min(depth, 4),
                   "family": lab, "tier": tier, "want_sample": i % 4 == 0,
                   "reinit": lab in ("plain-feasible", "plain-optional", "two-schedules/logics", "min-makespan/optimize", "two-objectives/optimize-lex"),
                   "side": lab in ("plain-feasible", "plain-feasible/debug", "plain-optional", "min-makespan/incremental/max_iter=None", "min-makespan/optimize",
                                   "two-objectives/incremental", "one-schedule/logics")})
    js = common.rotate(js)
    nontrivial = 0
    for status, r in run.pmap(job, js, chunk=1):
        if status == "err" or not r["ok"]:
            chk.error(r if status == "err" else {"error": r["error"], "tb": r["tb"]})
            continue
        chk.add(programs=1, states=r["states"] + r["e1"]["admitted"], transitions=r["calls"] + r["e1"]["checks"], evaluations=r["runs"],
                traces_validated_against_impl=r["runs"], admitted_leaves=r["e1"]["admitted"])
        chk.cov["histories_executed"] = chk.cov.get("histories_executed", 0) + r["runs"]
        nontrivial += r["states"]
        chk.family(r["family"], histories=r["runs"], protocol_states=r["states"], distinct_outcomes=r["outcomes"])
        if r.get("sample"):
            chk.sample(r["sample"])
        for v in r["viol"]:
            chk.violation(v["sig"], v["instance"])
            chk.groups[run.jdump(v["sig"])]["count"] += v["count"] - 1
    chk.cov["distinct_nontrivial"] = nontrivial
    return chk.finish(confirm=confirm, witness_runner=witness)
