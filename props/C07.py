"""C07 - optimisation returns a best schedule; early stops still return valid ones (E1 + E2)."""
import itertools
import json

import z3

from psmc import boot, dsl, run, history as hs, ctl, ref, analysis, explore as ex
from psmc.dsl import fixed, var, zero, worker, select, cumul, req, con, prog, R, E, new, const_fn, lin_fn
from . import common, C13

RULE = ("programs: every built-in objective and Objective{Min,Max}imizeIndicator over bounded and unbounded indicators on 1-3 task "
        "scenes, single objectives and same-direction pairs with weights; for each: (1) E1 explores the whole box with the "
        "objective unknown as an extra primary -> set of achievable values and best*; (2) the incremental loop is run under the "
        "controlled solver for EVERY strictly improving chain of models (one representative per objective value: all choice "
        "sequences); (3) every interruption: max_iter = 1..#values+1 under every chain, `unknown` injected at every check index, "
        "one slow check (virtual clock beyond max_time) at every index, growing check costs (extrapolation stop); (4) "
        "z3.Optimize for single objectives and optimize+weight / incremental for pairs. Oracles: uninterrupted value = best* and "
        "schedule in A(P); interrupted: schedule in A(P), value = best incumbent the log shows, False only if nothing was found; "
        "non-trivial = runs with distinct (chain, stop) outcomes")
ASSUME = ["A(P) and the achievable objective values from E1 (z3 trusted on pinned ground queries)",
          "steered models are models of the implementation's own assertion stack", "virtual clock replaces perf_counter inside processscheduler.solver only"]


def programs(tier):
    out = []
    W2 = [fixed("a", 1), fixed("b", 2), worker("w"), req("a", "w"), req("b", "w")]
    out.append(("makespan", prog(4, W2 + [new("ObjectiveMinimizeMakespan", "o")])))
    out.append(("makespan-free-horizon", prog(None, W2 + [new("ObjectiveMinimizeMakespan", "o")], H=4)))
    out.append(("flowtime", prog(4, W2 + [new("ObjectiveMinimizeFlowtime", "o")])))
    out.append(("flowtime-optional", prog(3, [fixed("a", 1, optional=True), fixed("b", 2), con("TaskStartAfter", "c", task=R("b"), value=1), new("ObjectiveMinimizeFlowtime", "o")])))
    out.append(("priorities", prog(3, [fixed("a", 1, priority=3), fixed("b", 1), worker("w"), req("a", "w"), req("b", "w"), new("ObjectivePriorities", "o")])))
    out.append(("startlatest", prog(3, [fixed("a", 1), fixed("b", 2), new("ObjectiveTasksStartLatest", "o")])))
    out.append(("startearliest", prog(3, [fixed("a", 1, priority=2), fixed("b", 1), worker("w"), req("a", "w"), req("b", "w"), new("ObjectiveTasksStartEarliest", "o")])))
    out.append(("greateststart", prog(3, [fixed("a", 1), fixed("b", 1), worker("w"), req("a", "w"), req("b", "w"), new("ObjectiveMinimizeGreatestStartTime", "o")])))
    out.append(("max-utilization", prog(4, [var("a", max_duration=4), worker("w"), req("a", "w"), new("ObjectiveMaximizeResourceUtilization", "o", resource=R("w"))])))
    out.append(("min-utilization", prog(4, [var("a", min_duration=1, max_duration=4), worker("w"), req("a", "w"), new("IndicatorResourceUtilization", "i", resource=R("w")),
                                            new("ObjectiveMinimizeIndicator", "o", target=R("i"), weight=1)])))
    out.append(("max-bounded-expr", prog(3, [fixed("a", 1), new("IndicatorFromMathExpression", "i", name="i", expression=E(["start", "a"]), bounds=(0, 2)),
                                             new("ObjectiveMaximizeIndicator", "o", target=R("i"))])))
    out.append(("min-bounded-expr", prog(3, [fixed("a", 1), new("IndicatorFromMathExpression", "i", name="i", expression=E(["end", "a"]), bounds=(1, 3)),
                                             new("ObjectiveMinimizeIndicator", "o", target=R("i"), weight=1)])))
    out.append(("min-cost-select", prog(3, [fixed("a", 2), worker("w", cost=const_fn(3)), worker("v", cost=const_fn(1)), select("s", ["w", "v"]), req("a", "s"),
                                            new("ObjectiveMinimizeResourceCost", "o", list_of_resources=[R("w"), R("v")])])))
    buf = [fixed("a", 1), fixed("b", 1), new("NonConcurrentBuffer", "bf", name="bf", initial_level=1),
           con("TaskUnloadBuffer", "u", task=R("a"), buffer=R("bf"), quantity=1), con("TaskLoadBuffer", "l", task=R("b"), buffer=R("bf"), quantity=2)]
    out.append(("max-buffer", prog(3, buf + [new("ObjectiveMaximizeMaxBufferLevel", "o", buffer=R("bf"))])))
    out.append(("min-buffer", prog(3, buf + [new("ObjectiveMinimizeMaxBufferLevel", "o", buffer=R("bf"))])))
    # Objective{Min,Max}imizeIndicator over every built-in indicator kind (the optimum is not at a 'natural' bound such as 0)
    due = [fixed("a", 1, due_date=3, due_date_is_deadline=False), fixed("b", 1, due_date=3, due_date_is_deadline=False), worker("w"), req("a", "w"), req("b", "w")]
    for icls, direction in (("IndicatorMaximumLateness", "Min"), ("IndicatorMaximumLateness", "Max"), ("IndicatorTardiness", "Min"), ("IndicatorEarliness", "Min"),
                            ("IndicatorEarliness", "Max"), ("IndicatorNumberOfTardyTasks", "Min")):
        kw = {"weight": 1} if direction == "Min" else {}
        out.append((f"{direction.lower()}-{icls}", prog(4, due + [new(icls, "i"), new(f"Objective{direction}imizeIndicator", "o", target=R("i"), **kw)])))
    resw = [fixed("a", 1), fixed("b", 1), worker("w", cost=lin_fn(1, 1)), worker("v", cost=const_fn(2)), select("s", ["w", "v"]), req("a", "s"), req("b", "w")]
    for icls, args, direction in (("IndicatorResourceIdle", {"resource": R("w")}, "Min"), ("IndicatorResourceIdle", {"resource": R("w")}, "Max"),
                                  ("IndicatorNumberTasksAssigned", {"resource": R("w")}, "Min"), ("IndicatorNumberTasksAssigned", {"resource": R("v")}, "Max"),
                                  ("IndicatorResourceCost", {"list_of_resources": [R("w"), R("v")]}, "Min"), ("IndicatorResourceCost", {"list_of_resources": [R("w")]}, "Max")):
        kw = {"weight": 1} if direction == "Min" else {}
        out.append((f"{direction.lower()}-{icls}", prog(3, resw + [new(icls, "i", **args), new(f"Objective{direction}imizeIndicator", "o", target=R("i"), **kw)])))
    out.append(("max-IndicatorMinBufferLevel", prog(3, buf + [new("IndicatorMinBufferLevel", "i", buffer=R("bf")), new("ObjectiveMaximizeIndicator", "o", target=R("i"))])))
    # same-direction pairs
    for w1, w2 in ((1, 1), (1, 2), (3, 1), (1, 0), (0, 2)) if tier == "thorough" else ((1, 2), (1, 0), (2, 3)):
        out.append((f"pair-min/{w1}:{w2}", prog(4, W2 + [new("IndicatorFromMathExpression", "i1", name="i1", expression=E(["end", "a"])),
                                                        new("IndicatorFromMathExpression", "i2", name="i2", expression=E(["-", 6, ["start", "b"]])),
                                                        new("ObjectiveMinimizeIndicator", "o1", target=R("i1"), weight=w1),
                                                        new("ObjectiveMinimizeIndicator", "o2", target=R("i2"), weight=w2)])))
        out.append((f"pair-max/{w1}:{w2}", prog(3, [fixed("a", 1), fixed("b", 1), worker("w"), req("a", "w"), req("b", "w"),
                                                    new("IndicatorFromMathExpression", "i1", name="i1", expression=E(["start", "a"])),
                                                    new("IndicatorFromMathExpression", "i2", name="i2", expression=E(["-", 4, ["end", "b"]])),
                                                    new("ObjectiveMaximizeIndicator", "o1", target=R("i1"), weight=w1),
                                                    new("ObjectiveMaximizeIndicator", "o2", target=R("i2"), weight=w2)])))
    # weights that are not multiples of each other, on indicators whose two best weighted sums differ by exactly 1
    for direction in ("Min", "Max"):
        for w1, w2 in ((2, 3), (3, 5)):
            out.append((f"pair-{direction.lower()}-coupled/{w1}:{w2}", prog(4, W2 + [
                new("IndicatorFromMathExpression", "i1", name="i1", expression=E(["end", "a"])),
                new("IndicatorFromMathExpression", "i2", name="i2", expression=E(["start", "b"])),
                new(f"Objective{direction}imizeIndicator", "o1", target=R("i1"), weight=w1),
                new(f"Objective{direction}imizeIndicator", "o2", target=R("i2"), weight=w2)])))
    out.append(("pair-makespan+flowtime", prog(4, W2 + [new("ObjectiveMinimizeMakespan", "o1"), new("ObjectiveMinimizeFlowtime", "o2")])))
    # the built-in objectives take no weight argument: it is assigned afterwards, and the weight at solve time counts
    out.append(("pair-makespan+flowtime/assigned-weights-3:1", prog(4, W2 + [new("ObjectiveMinimizeMakespan", "o1"), new("ObjectiveMinimizeFlowtime", "o2"),
                                                                            dsl.setattr_("o1", "weight", 3)])))
    out.append(("pair-startlatest+priorities/assigned-weights-1:4", prog(3, [fixed("a", 1, priority=2), fixed("b", 1), worker("w"), req("a", "w"), req("b", "w"),
                                                                             new("ObjectiveTasksStartEarliest", "o1"), new("ObjectiveMinimizeGreatestStartTime", "o2"),
                                                                             dsl.setattr_("o2", "weight", 4)])))
    # three objectives, two of them on the same indicator: their weights add up
    ti1 = new("IndicatorFromMathExpression", "i1", name="i1", expression=E(["start", "a"]))
    ti2 = new("IndicatorFromMathExpression", "i2", name="i2", expression=E(["-", 4, ["start", "a"]]))
    out.append(("triple-min/shared-indicator", prog(4, [fixed("a", 1), ti1, ti2, new("Objective", "o1", name="first", target=R("i1"), weight=1, kind="minimize"),
                                                        new("Objective", "o2", name="second", target=R("i2"), weight=3, kind="minimize"),
                                                        new("Objective", "o3", name="third", target=R("i1"), weight=3, kind="minimize")])))
    # an indicator bound used as an operand of a connective limits nothing by itself
    for direction, bkw in (("Max", {"upper_bound": 2}), ("Min", {"lower_bound": 2})):
        okw = {"weight": 1} if direction == "Min" else {}
        out.append((f"{direction.lower()}-indicator/bounds-as-operand", prog(4, [fixed("a", 1), fixed("b", 1), new("IndicatorFromMathExpression", "i", name="i", expression=E(["start", "a"])),
                    con("Or", "c", list_of_constraints=[{"$new": con("IndicatorBounds", "ib", indicator=R("i"), **bkw)}, E([">=", ["start", "b"], 1])]),
                    new(f"Objective{direction}imizeIndicator", "o", target=R("i"), **okw)])))
    # a bounded indicator next to an unbounded one, in both declaration orders: the bound of one objective says nothing
    # about the weighted sum (here the sum passes through 0, the lower bound of i2, on its way down to -3)
    bi1 = new("IndicatorFromMathExpression", "i1", name="i1", expression=E(["-", ["start", "a"], 3]))
    bi2 = new("IndicatorFromMathExpression", "i2", name="i2", expression=E(["start", "b"]), bounds=(0, 4))
    bo1 = new("ObjectiveMinimizeIndicator", "o1", target=R("i1"), weight=1)
    bo2 = new("ObjectiveMinimizeIndicator", "o2", target=R("i2"), weight=1)
    out.append(("pair-min/bounded-last", prog(4, [fixed("a", 1), fixed("b", 1), bi1, bi2, bo1, bo2])))
    out.append(("pair-min/bounded-first", prog(4, [fixed("a", 1), fixed("b", 1), bi1, bi2, bo2, bo1])))
    if tier == "thorough":
        out.append(("makespan3", prog(4, [fixed("a", 1), fixed("b", 1), fixed("c", 2), worker("w"), req("a", "w"), req("b", "w"), req("c", "w"), new("ObjectiveMinimizeMakespan", "o")])))
        out.append(("flowtime-var", prog(4, [var("a", min_duration=1, max_duration=2), fixed("b", 1), worker("w"), req("a", "w"), req("b", "w"), new("ObjectiveMinimizeFlowtime", "o")])))
    return out


def objective_values(program, skw=None):
    """E1 with the objective unknown as an extra primary: achievable values, timings, kind."""
    import processscheduler as ps

    built = dsl.build(program)
    solver = analysis.make_solver(built, dict(skw or {}))  # incremental (default): builds the equivalent objective if several
    objv = solver._objective._target
    kind = "min" if solver._objective.kind == "minimize" else "max"
    prims = ex.primaries(built)
    extra = ex.Prim(("objective",), objv, list(range(-5, 111)))
    stats = ex.Stats()
    leaves = list(ex.explore(solver._solver, prims + [extra], stats))
    values = sorted({l[("objective",)] for l in leaves})
    # the objective unknown must be the documented quantity (weighted sum of the declared objectives) on every leaf
    kind_ref, fn_ref = C13.obj_fn(program)
    mismatch = None
    is_makespan_only = all(d["cls"] == "ObjectiveMinimizeMakespan" for d in program["decls"] if d["k"] == "new" and d["cls"].startswith("Objective"))
    by_sched = {}
    for l in leaves:
        key = ex.leaf_key({k: v for k, v in l.items() if k != ("objective",)})
        by_sched.setdefault(key, []).append(l[("objective",)])
    for l in leaves:
        want = fn_ref({k: v for k, v in l.items() if k != ("objective",)})
        if want is None:
            continue
        got = by_sched[ex.leaf_key({k: v for k, v in l.items() if k != ("objective",)})]
        has_makespan = any(d["k"] == "new" and d["cls"] == "ObjectiveMinimizeMakespan" for d in program["decls"])
        ok = (min(got) == want) if has_makespan else (got == [want])
        if not ok:
            mismatch = {"leaf": analysis._leaf_list({k: v for k, v in l.items() if k != ("objective",)}), "implementation": sorted(set(got)), "documented": want}
            break
    timings = {hs.timing_of_leaf(program, l) for l in leaves}
    by_timing = {}
    for l in leaves:
        by_timing.setdefault(hs.timing_of_leaf(program, l), set()).add(l[("objective",)])
    objective_values.mismatch = mismatch
    return values, kind, timings, by_timing, stats, built, len(leaves)


def nonlinear_objective(program):
    """True if the optimised quantity contains a product of unknowns: a cost indicator over a worker whose cost
    function is not constant (the cost of a busy interval is the integral of the function over it). z3's optimising
    solver is not complete for such objectives (recorded finding C07-builtin-optimizer-not-optimal-on-nonlinear-cost):
    whether it returns the optimum depends on what the process solved before, so that single answer is not judged
    for optimality; the repeated-solve history of the finding's witness is."""
    dd = dsl.decl_by_id(program)
    for d in program["decls"]:
        if d["k"] == "new" and d["cls"] in ("IndicatorResourceCost", "ObjectiveMinimizeResourceCost"):
            for r in d["args"].get("list_of_resources", []):
                cost = (dd[r["$"]]["args"] or {}).get("cost")
                if cost is not None and cost["$new"]["cls"] != "ConstantFunction":
                    return True
    return False


def run_loop(program, skw, choices, values, unknown_at=(), costs=None, default_cost=0.0, early=False):
    """One execution of solve() under the controlled solver; candidates = one per objective value.
    early=True: the solver object is created right after the problem, before anything is declared in it."""
    import processscheduler as ps

    ctl.install()
    kw = dict(skw)
    kw.setdefault("max_time", 10)
    if early:
        kws = "".join(f", {k}={v!r}" for k, v in kw.items())
        program = dict(program, decls=[{"k": "raw", "src": f"early_solver = ps.SchedulingSolver(problem=pb{kws})"}] + list(program["decls"]))
    built = dsl.build(program)
    with boot.quiet(capture=True) as buf:
        solver = built.ns["early_solver"] if early else ps.SchedulingSolver(problem=built.pb, **kw)
        solver.initialize()
        cands = None
        if values is not None and solver._objective is not None:
            # (a solver that found no objective although the program declares one is judged on what it returns)
            objv = solver._objective._target
            cands = [(v, [objv == v]) for v in values]
        env = ctl.Env(choices=choices, candidates=cands, unknown_at=unknown_at, costs=costs, default_cost=default_cost)
        with ctl.use(env):
            try:
                sol = solver.solve()
                err = None
            except ctl.ReplayDivergence:
                raise
            except Exception as e:
                sol, err = None, f"{type(e).__name__}: {e}"[:150]
        env.leftover_scopes = env.depth
        env.sol = sol
        env.err = err
        env.objname = None
        if sol:
            env.timing = hs.timing_of_solution(program, sol)
            # value of the objective unknown in the returned model
            try:
                env.value = solver._model.eval(solver._objective._target, model_completion=True).as_long()
            except Exception:
                env.value = None
    return env


def job(j):
    program, tier, lab = j["program"], j["tier"], j["family"]
    res = {"ok": True, "family": lab, "viol": [], "runs": 0, "points": 0, "outcomes": set(), "checks": 0}
    try:
        values, kind, timings, by_timing, stats, built, nleaves = objective_values(program)
        res["e1"] = {"admitted": nleaves, "checks": stats.checks, "values": values}
        best = min(values) if kind == "min" else max(values)
        n_obj = len([d for d in program["decls"] if d["k"] == "new" and d["cls"].startswith("Objective")])
        sigs = {}
        mm = objective_values.mismatch
        if mm:
            sig = {"dir": "optimise", "what": "objective-is-not-the-documented-quantity", "objectives": n_obj, "kind": kind}
            sigs[json.dumps(sig, sort_keys=True)] = [1, {"program": program, "solver": {}, "choices": [], "env": {}, "values": values, "best": best,
                                                        "detail": f"on schedule {mm['leaf']} the optimised unknown takes {mm['implementation']}, the declared objectives give {mm['documented']}",
                                                        "expect": "optimise", "what": "objective-is-not-the-documented-quantity"}, sig]

        def record(what, env, cfg, detail):
            sig = {"dir": "optimise", "what": what, "optimizer": cfg.get("optimizer", "incremental"), "kind": kind, "objectives": n_obj,
                   "interruption": cfg.get("_int", "none")}
            k = json.dumps(sig, sort_keys=True)
            e = sigs.setdefault(k, [0, None, sig])
            e[0] += 1
            inst = {"program": program, "solver": {k2: v for k2, v in cfg.items() if not k2.startswith("_")}, "choices": [p["chosen"] for p in env.points],
                    "env": {k2: cfg[k2] for k2 in ("_unknown_at", "_costs", "_default_cost", "_early") if k2 in cfg}, "values": values, "best": best,
                    "detail": detail, "expect": "optimise", "what": what}
            if e[1] is None or len(inst["choices"]) < len(e[1]["choices"]):
                e[1] = inst

        def judge(env, cfg, interrupted):
            res["runs"] += 1
            res["points"] += len(env.points)
            res["checks"] += env.check_index
            res["real_unknowns"] = res.get("real_unknowns", 0) + getattr(env, "real_unknowns", 0)
            incumbents = [p["enabled"][p["chosen"]] for p in env.points if p["enabled"]]
            res["outcomes"].add((tuple(incumbents), env.value if env.sol else None, cfg.get("_int", "none"), cfg.get("max_iter")))
            if env.err:
                record("raised", env, cfg, env.err)
                return
            if env.leftover_scopes:
                record("scopes-left-pushed", env, cfg, f"{env.leftover_scopes} scope(s) still pushed after solve()")
            if not env.sol:
                if incumbents or not interrupted:
                    record("failed-although-a-schedule-was-found" if incumbents else "failed-on-feasible-problem", env, cfg,
                           f"incumbents {incumbents}")
                return
            if env.timing not in timings:
                record("schedule-outside-admitted-set", env, cfg, f"{env.timing}")
                return
            if env.value not in by_timing[env.timing]:
                record("objective-value-not-of-this-schedule", env, cfg, f"value {env.value}, schedule admits {sorted(by_timing[env.timing])}")
                return
            if not interrupted:
                if env.value != best:
                    record("not-optimal", env, cfg, f"returned {env.value}, best achievable {best}; models seen {incumbents}")
            else:
                if incumbents:
                    b = min(incumbents) if kind == "min" else max(incumbents)
                    worse = env.value > b if kind == "min" else env.value < b
                    if worse:
                        record("worse-than-incumbent", env, cfg, f"returned {env.value}, incumbents {incumbents}")

        # (2) every improving chain, uninterrupted
        inc = {}
        n_chains = 0
        for choices, env in ctl.explore_choices(lambda ch: run_loop(program, inc, ch, values), max_runs=600):
            judge(env, dict(inc), False)
            n_chains += 1
        res["chains"] = n_chains
        # the unsteered run as well
        judge(run_loop(program, inc, None, None), dict(inc), False)
        # (3a) max_iter under every chain
        for mi in range(1, len(values) + 2):
            cfg = {"max_iter": mi, "_int": "max_iter"}
            for choices, env in ctl.explore_choices(lambda ch: run_loop(program, {"max_iter": mi}, ch, values), max_runs=300):
                # interrupted only if the loop really hit the limit (it ran mi checks and the last one was sat)
                hit = env.check_index >= mi and len([p for p in env.points if p["enabled"]]) >= mi
                judge(env, cfg, hit)
        # (3b) unknown at every check index, under <=1 order deviation
        max_idx = len(values) + 1
        for k in range(0, max_idx + 1):
            cfg = {"_int": "unknown", "_unknown_at": [k]}
            for choices, env in ctl.explore_choices(lambda ch: run_loop(program, {}, ch, values, unknown_at=[k]), bound=1, max_runs=100):
                judge(env, cfg, env.check_index > k)
        # (3c) one slow check at every index (virtual clock beyond max_time)
        for k in range(0, max_idx + 1):
            cfg = {"_int": "slow-check", "_costs": {str(k): 11.0}}
            for choices, env in ctl.explore_choices(lambda ch: run_loop(program, {}, ch, values, costs={k: 11.0}), bound=1, max_runs=100):
                judge(env, cfg, env.check_index > k and env.now > 10)
        # (3d) growing costs: the extrapolation stop
        for c in (1.0, 2.5):
            cfg = {"_int": "extrapolation", "_default_cost": c}
            for choices, env in ctl.explore_choices(lambda ch: run_loop(program, {}, ch, values, default_cost=c), bound=1, max_runs=100):
                judge(env, cfg, True)
        # (3e) the solver object created before the problem is declared (it reads the problem when it is initialised)
        cfg = {"_int": "none", "_early": True}
        for choices, env in ctl.explore_choices(lambda ch: run_loop(program, {}, ch, values, early=True), bound=1, max_runs=60):
            judge(env, cfg, False)
        ocfg = {"optimizer": "optimize"} if n_obj == 1 else {"optimizer": "optimize", "optimize_priority": "weight"}
        judge(run_loop(program, ocfg, None, None, early=True), dict(ocfg, _early=True), nonlinear_objective(program))
        # (4) z3.Optimize
        if n_obj == 1:
            env = run_loop(program, {"optimizer": "optimize"}, None, None)
            judge(env, {"optimizer": "optimize"}, nonlinear_objective(program))
        else:
            env = run_loop(program, {"optimizer": "optimize", "optimize_priority": "weight"}, None, None)
            judge(env, {"optimizer": "optimize", "optimize_priority": "weight"}, False)
        for k, (cnt, inst, sig) in sigs.items():
            res["viol"].append({"sig": sig, "count": cnt, "instance": inst})
        if j.get("want_sample"):
            res["sample"] = {"source": built.src, "objective_values": values, "kind": kind, "best": best, "improving_chains_run": n_chains}
    except Exception as e:
        import traceback

        res["ok"] = False
        res["error"] = f"{type(e).__name__}: {e}"[:300]
        res["tb"] = traceback.format_exc()[-1500:]
    res["outcomes"] = len(res["outcomes"])
    return res


def replay(inst):
    program = inst["program"]
    values, kind, timings, by_timing, stats, built, nleaves = objective_values(program)
    best = min(values) if kind == "min" else max(values)
    if inst.get("repeat"):
        # history: the same problem is declared and solved again and again in one process (fresh problem and solver
        # objects each time); every answer of a solver that was allowed to finish must be optimal
        seen = []
        for k in range(inst["repeat"]):
            env = run_loop(program, inst["solver"], None, None)
            seen.append(env.value if env.sol else None)
            if env.err or not env.sol or env.value != best:
                break
        bad = seen[-1] != best
        print(json.dumps({"violation": inst["what"] if bad else None, "best": best, "values_returned": seen, "failing_round": len(seen) if bad else None}))
        return 1 if bad else 0
    envd = inst.get("env") or {}
    costs = {int(k): v for k, v in (envd.get("_costs") or {}).items()}
    steer = inst["choices"] or envd
    env = run_loop(program, inst["solver"], inst["choices"], values if (inst["choices"] or envd or inst["solver"].get("max_iter")) else None,
                   unknown_at=envd.get("_unknown_at", ()), costs=costs, default_cost=envd.get("_default_cost", 0.0), early=bool(envd.get("_early")))
    out = {"returned": bool(env.sol), "value": getattr(env, "value", None), "best": best, "values": values, "error": env.err,
           "models_seen": [p["enabled"][p["chosen"]] for p in env.points if p["enabled"]], "leftover_scopes": env.leftover_scopes}
    what = inst["what"]
    bad = False
    if what == "objective-is-not-the-documented-quantity":
        bad = objective_values.mismatch is not None
        out["mismatch"] = objective_values.mismatch
    elif what == "not-optimal":
        bad = env.sol and env.value != best
    elif what == "raised":
        bad = bool(env.err)
    elif what == "scopes-left-pushed":
        bad = env.leftover_scopes > 0
    elif what.startswith("failed"):
        bad = not env.sol
    elif what == "worse-than-incumbent":
        seen = out["models_seen"]
        bad = env.sol and seen and ((env.value > min(seen)) if kind == "min" else (env.value < max(seen)))
    elif what == "schedule-outside-admitted-set":
        bad = env.sol and env.timing not in timings
    elif what == "objective-value-not-of-this-schedule":
        bad = env.sol and env.value not in by_timing.get(env.timing, ())
    out["violation"] = what if bad else None
    print(json.dumps(out, default=list))
    return 1 if bad else 0


def confirm(inst):
    import subprocess
    import sys
    import os

    kws = "".join(f", {k}={v!r}" for k, v in inst["solver"].items())
    inst["standalone"] = ('"""Stand-alone replay generated by /verif.\n' + f"{inst['what']}: {inst['detail']}\n"
                          + f"achievable objective values {inst['values']}, best {inst['best']}; model order / faults chosen by the harness: "
                          + f"choices={inst['choices']} env={inst.get('env')}\n" + '"""\n' + dsl.gen_source(inst["program"])
                          + f"solver = ps.SchedulingSolver(problem=pb{kws})\nsolution = solver.solve()\nprint(solution.indicators if solution else solution)\n")
    outs = []
    for _ in range(2):
        p = subprocess.run([sys.executable, "-m", "props.hist_replay", "C07"], input=json.dumps(inst, default=list), capture_output=True,
                           text=True, cwd=run.VERIF, env=dict(os.environ, PYTHONHASHSEED="0"), timeout=300)
        if p.returncode not in (0, 1):
            return False, {"error": p.stderr[-600:]}
        outs.append(p.stdout.strip().splitlines()[-1])
    if outs[0] != outs[1]:
        return False, {"error": "replay not deterministic", "obs": outs}
    o = json.loads(outs[0])
    return bool(o["violation"]), o


def witness(entry):
    import io
    import contextlib
    import subprocess
    import sys
    import os

    if entry["witness"].get("repeat"):
        # a history that depends on what the process did before: always re-executed in a fresh interpreter
        p = subprocess.run([sys.executable, "-m", "props.hist_replay", "C07"], input=json.dumps(entry["witness"]), capture_output=True, text=True,
                           cwd=run.VERIF, env=dict(os.environ, PYTHONHASHSEED="0"), timeout=900)
        if p.returncode not in (0, 1):
            raise RuntimeError(p.stderr[-400:])
        return p.returncode == 1
    with contextlib.redirect_stdout(io.StringIO()):
        return replay(entry["witness"]) == 1


def main(tier):
    chk = run.Check("C07", tier, RULE)
    chk.assumptions = ASSUME
    js = [{"program": p, "family": lab, "tier": tier, "want_sample": i % 4 == 0} for i, (lab, p) in enumerate(programs(tier))]
    js = common.rotate(js)
    nontrivial = 0
    for status, r in run.pmap(job, js, chunk=1):
        if status == "err" or not r["ok"]:
            chk.error(r if status == "err" else {"error": r["error"], "tb": r["tb"], "family": r["family"]})
            continue
        chk.add(programs=1, states=r["e1"]["admitted"] + r["points"], transitions=r["e1"]["checks"] + r["checks"], evaluations=r["runs"],
                traces_validated_against_impl=r["runs"], admitted_leaves=r["e1"]["admitted"])
        chk.cov["optimiser_runs"] = chk.cov.get("optimiser_runs", 0) + r["runs"]
        chk.cov["model_choice_points"] = chk.cov.get("model_choice_points", 0) + r["points"]
        chk.cov["spurious_unknowns_retried"] = chk.cov.get("spurious_unknowns_retried", 0) + r.get("real_unknowns", 0)
        nontrivial += r["outcomes"]
        chk.family(r["family"], runs=r["runs"], chains=r.get("chains", 0), values=len(r["e1"]["values"]), distinct_outcomes=r["outcomes"])
        if r.get("sample"):
            chk.sample(r["sample"])
        for v in r["viol"]:
            chk.violation(v["sig"], v["instance"])
            chk.groups[run.jdump(v["sig"])]["count"] += v["count"] - 1
    chk.cov["distinct_nontrivial"] = nontrivial
    return chk.finish(confirm=confirm, witness_runner=witness)
