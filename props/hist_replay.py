"""python -m props.hist_replay <Cxx> : re-execute one history artefact (JSON on stdin) in a fresh interpreter."""
import importlib
import json
import sys


def main():
    pid = sys.argv[1]
    inst = json.loads(sys.stdin.read())
    from psmc import boot

    boot.boot()
    mod = importlib.import_module(f"props.{pid}")
    return mod.replay(inst)


if __name__ == "__main__":
    sys.exit(main())
