"""Program alphabets shared by several properties (E0). Deterministic, simplest first."""
import itertools

from psmc import dsl
from psmc.dsl import fixed, var, zero, worker, select, cumul, req, con, prog, R, E, new


def intervals(H, maxlen=None, minlen=1):
    out = []
    for lo in range(0, H):
        for hi in range(lo + minlen, H + 1):
            if maxlen is None or hi - lo <= maxlen:
                out.append((lo, hi))
    return out


# --------------------------------------------------------------------------- task scenes
def scenes2(tier):
    """Two-task scenes (ids a, b): (label, [decls])."""
    out = []
    ta = {"F1": lambda i, **k: fixed(i, 1, **k), "F2": lambda i, **k: fixed(i, 2, **k),
          "V": lambda i, **k: var(i, max_duration=3, **k), "Z": lambda i, **k: zero(i, **k)}
    combos = [("F1", "F2"), ("F2", "V"), ("F1", "Z"), ("V", "V")]
    if tier in ("thorough", "deep"):
        combos += [("F1", "F1"), ("F2", "F2"), ("V", "Z"), ("Z", "Z")]
    for (x, y) in combos:
        for oa, ob in [(False, False), (True, False), (False, True), (True, True)]:
            ka = {"optional": True} if oa else {}
            kb = {"optional": True} if ob else {}
            out.append((f"{x}{'o' if oa else ''}-{y}{'o' if ob else ''}", [ta[x]("a", **ka), ta[y]("b", **kb)]))
    return out


def scenes3(tier):
    out = []
    out.append(("F1-F1-F2", [fixed("a", 1), fixed("b", 1), fixed("c", 2)]))
    out.append(("F1-F2o-V", [fixed("a", 1), fixed("b", 2, optional=True), var("c", max_duration=2)]))
    if tier in ("thorough", "deep"):
        out.append(("F1o-F1o-F1", [fixed("a", 1, optional=True), fixed("b", 1, optional=True), fixed("c", 1)]))
        out.append(("F2-Z-V", [fixed("a", 2), zero("b"), var("c", min_duration=1, max_duration=2)]))
    return out


# --------------------------------------------------------------------------- task constraints
def task_constraints_2(H, tier):
    """Constraints over tasks a, b: (label, [constraint decls])."""
    out = []
    vals = [-1, 0, 1, 2, H - 1, H, H + 1] if tier in ("thorough", "deep") else [0, 1, H - 1, H]
    for t in ("a", "b"):
        for v in vals:
            out.append(("TaskStartAt", [con("TaskStartAt", "c1", task=R(t), value=v)]))
            out.append(("TaskEndAt", [con("TaskEndAt", "c1", task=R(t), value=v)]))
            for k in ("lax", "strict"):
                out.append(("TaskStartAfter", [con("TaskStartAfter", "c1", task=R(t), value=v, kind=k)]))
                out.append(("TaskEndBefore", [con("TaskEndBefore", "c1", task=R(t), value=v, kind=k)]))
    for (x, y) in (("a", "b"), ("b", "a")):
        for k in ("lax", "strict", "tight"):
            for off in (0, 1, 2):
                out.append(("TaskPrecedence", [con("TaskPrecedence", "c1", task_before=R(x), task_after=R(y), kind=k, offset=off)]))
    out.append(("TasksStartSynced", [con("TasksStartSynced", "c1", task_1=R("a"), task_2=R("b"))]))
    out.append(("TasksEndSynced", [con("TasksEndSynced", "c1", task_1=R("a"), task_2=R("b"))]))
    out.append(("TasksDontOverlap", [con("TasksDontOverlap", "c1", task_1=R("a"), task_2=R("b"))]))
    out.append(("TasksDontOverlap", [con("TasksDontOverlap", "c1", task_1=R("b"), task_2=R("a"))]))
    out.append(("TasksContiguous", [con("TasksContiguous", "c1", list_of_tasks=[R("a"), R("b")])]))
    out.append(("TasksContiguous", [con("TasksContiguous", "c1", list_of_tasks=[R("b"), R("a")])]))
    # groups
    wins = [None] + [("iv", iv) for iv in intervals(H) if iv[1] - iv[0] >= 2][:: (1 if tier in ("thorough", "deep") else 2)] + \
           [("len", L) for L in range(0, H + 1)]
    for w in wins:
        kw = {}
        if w is not None:
            if w[0] == "iv":
                kw["time_interval"] = tuple(w[1])
            else:
                kw["time_interval_length"] = w[1]
        for order in (["a", "b"], ["b", "a"]):
            out.append(("UnorderedTaskGroup", [con("UnorderedTaskGroup", "c1", list_of_tasks=[R(x) for x in order], **kw)]))
            for k in ("lax", "strict", "tight"):
                out.append(("OrderedTaskGroup", [con("OrderedTaskGroup", "c1", list_of_tasks=[R(x) for x in order], kind=k, **kw)]))
    # ScheduleNTasksInTimeIntervals
    ivs1 = [[iv] for iv in intervals(H) if iv[1] - iv[0] >= 1][:: (1 if tier in ("thorough", "deep") else 2)]
    ivs2 = [[(0, 2), (2, 4)], [(0, 1), (3, 4)], [(0, 3), (1, 4)], [(0, 2), (1, 3)], [(0, 1), (1, 2), (3, 4)], [(3, 4), (0, 1), (1, 3)]]
    for ivl in ivs1 + ivs2:
        for n in (0, 1, 2):
            for k in ("exact", "min", "max"):
                out.append(("ScheduleNTasksInTimeIntervals",
                            [con("ScheduleNTasksInTimeIntervals", "c1", list_of_tasks=[R("a"), R("b")],
                                 nb_tasks_to_schedule=n, list_of_time_intervals=[tuple(i) for i in ivl], kind=k)]))
    return out


def task_constraints_3(H, tier):
    out = []
    ids = ["a", "b", "c"]
    for perm in ([ids, ["c", "a", "b"]] if tier == "quick" else list(itertools.permutations(ids))):
        perm = list(perm)
        out.append(("TasksContiguous", [con("TasksContiguous", "c1", list_of_tasks=[R(x) for x in perm])]))
        for k in ("lax", "strict", "tight"):
            out.append(("OrderedTaskGroup", [con("OrderedTaskGroup", "c1", list_of_tasks=[R(x) for x in perm], kind=k)]))
            out.append(("OrderedTaskGroup", [con("OrderedTaskGroup", "c1", list_of_tasks=[R(x) for x in perm], kind=k,
                                                 time_interval=(0, H - 1))]))
    out.append(("UnorderedTaskGroup", [con("UnorderedTaskGroup", "c1", list_of_tasks=[R(x) for x in ids], time_interval_length=H - 1)]))
    out.append(("UnorderedTaskGroup", [con("UnorderedTaskGroup", "c1", list_of_tasks=[R(x) for x in ids], time_interval=(1, H))]))
    for n in (0, 1, 2, 3):
        for k in ("exact", "min", "max"):
            for ivl in ([(0, 2)], [(1, 3)], [(0, 2), (2, 4)], [(0, 3), (1, 4)]):
                out.append(("ScheduleNTasksInTimeIntervals",
                            [con("ScheduleNTasksInTimeIntervals", "c1", list_of_tasks=[R(x) for x in ids],
                                 nb_tasks_to_schedule=n, list_of_time_intervals=list(ivl), kind=k)]))
    out.append(("chain", [con("TaskPrecedence", "c1", task_before=R("a"), task_after=R("b"), kind="tight"),
                          con("TaskPrecedence", "c2", task_before=R("b"), task_after=R("c"), kind="strict")]))
    return out


def optional_rules(tier):
    """Rules on optional tasks for scenes where the named tasks are optional: (label, needs_optional_ids, [decls])."""
    out = []
    for t in ("a", "b"):
        for v in (True, False):
            out.append(("OptionalTaskForceSchedule", [t], [con("OptionalTaskForceSchedule", "r1", task=R(t), to_be_scheduled=v)]))
    out.append(("OptionalTaskConditionSchedule", ["a"],
                [con("OptionalTaskConditionSchedule", "r1", task=R("a"), condition=E([">=", ["start", "b"], 2]))]))
    out.append(("OptionalTaskConditionSchedule", ["b"],
                [con("OptionalTaskConditionSchedule", "r1", task=R("b"), condition=E(["<", ["end", "a"], 2]))]))
    out.append(("OptionalTasksDependency", ["b"], [con("OptionalTasksDependency", "r1", task_1=R("a"), task_2=R("b"))]))
    out.append(("OptionalTasksDependency", ["a"], [con("OptionalTasksDependency", "r1", task_1=R("b"), task_2=R("a"))]))
    for n in (1, 2):
        for k in ("exact", "min", "max"):
            out.append(("ForceScheduleNOptionalTasks", ["a", "b"],
                        [con("ForceScheduleNOptionalTasks", "r1", list_of_optional_tasks=[R("a"), R("b")],
                             nb_tasks_to_schedule=n, kind=k)]))
    return out


def is_optional(decl):
    return bool(decl["args"].get("optional"))


def scene_optional_ids(scene):
    return [d["id"] for d in scene if d["k"] == "new" and d["cls"] in dsl.TASK_CLS and is_optional(d)]


# --------------------------------------------------------------------------- interaction alphabet
def interaction_programs(tier):
    """Cross product of task-attribute variants x resource set-ups x one further element (constraint, buffer,
    indicator) on a two-task scene: (label, kind_of_extra, program). Exists because single-family alphabets
    miss defects that need two different kinds of elements at once."""
    H = 4
    T = {
        "plain": lambda: [fixed("a", 2), fixed("b", 1)],
        "a-optional": lambda: [fixed("a", 2, optional=True), fixed("b", 1)],
        "b-optional": lambda: [fixed("a", 2), fixed("b", 1, optional=True)],
        "dates": lambda: [fixed("a", 2, due_date=2, due_date_is_deadline=False), fixed("b", 1, release_date=2)],
        "deadline": lambda: [fixed("a", 2, due_date=3), fixed("b", 1, release_date=1, optional=True)],
        "var+work": lambda: [var("a", work_amount=2, max_duration=3), fixed("b", 1)],
        "zero": lambda: [fixed("a", 2), zero("b")],
        "var-optional": lambda: [var("a", min_duration=1, max_duration=2, optional=True), fixed("b", 2)],
    }
    Rs = {
        "none": [],
        "shared": [worker("w"), req("a", "w"), req("b", "w")],
        "two": [worker("w"), worker("v"), req("a", "w"), req("a", "v"), req("b", "w")],
        "select-a": [worker("w"), worker("v"), select("s", ["w", "v"]), req("a", "s"), req("b", "w")],
        "select-b": [worker("w"), worker("v"), select("s", ["w", "v"], 1, "min"), req("b", "s"), req("a", "w")],
        "cumulative": [cumul("w", 2), req("a", "w"), req("b", "w")],
        "cumulative-p": [cumul("w", 2, productivity=3), req("a", "w"), req("b", "w")],
        "dynamic": [worker("w", productivity=2), req("a", "w", dynamic=True), req("b", "w")],
        "delay": [worker("w"), req("a", "w", delay_in=1), req("b", "w", early_out=1)],
    }
    needs_w = lambda c: c
    X = [
        ("task", "startat", [con("TaskStartAt", "x", task=R("b"), value=2)], False),
        ("task", "endbefore-strict-H", [con("TaskEndBefore", "x", task=R("a"), value=H, kind="strict")], False),
        ("task", "startafter-0", [con("TaskStartAfter", "x", task=R("a"), value=0, kind="strict")], False),
        ("task", "precedence-tight", [con("TaskPrecedence", "x", task_before=R("b"), task_after=R("a"), kind="tight", offset=1)], False),
        ("task", "endsynced", [con("TasksEndSynced", "x", task_1=R("a"), task_2=R("b"))], False),
        ("task", "dontoverlap", [con("TasksDontOverlap", "x", task_1=R("a"), task_2=R("b"))], False),
        ("task", "contiguous", [con("TasksContiguous", "x", list_of_tasks=[R("b"), R("a")])], False),
        ("task", "group-tight", [con("OrderedTaskGroup", "x", list_of_tasks=[R("b"), R("a")], kind="tight", time_interval=(0, H))], False),
        ("task", "schedule-n", [con("ScheduleNTasksInTimeIntervals", "x", list_of_tasks=[R("a"), R("b")], nb_tasks_to_schedule=1, list_of_time_intervals=[(0, 2), (2, H)], kind="min")], False),
        ("task", "xor", [con("Xor", "x", constraint_1={"$new": con("TaskStartAt", "n1", task=R("a"), value=0)}, constraint_2={"$new": con("TaskStartAt", "n2", task=R("b"), value=0)})], False),
        ("task", "optional-constraint", [con("TaskStartAt", "x", task=R("a"), value=1, optional=True)], False),
        ("resource", "unavailable-straddling-H", [con("ResourceUnavailable", "x", resource=R("w"), list_of_time_intervals=[(H - 1, H + 2)])], True),
        ("resource", "unavailable-0", [con("ResourceUnavailable", "x", resource=R("w"), list_of_time_intervals=[(0, 1)])], True),
        ("resource", "workload-max", [con("WorkLoad", "x", resource=R("w"), kind="max", dict_time_intervals_and_bound={"$tupkeys": [[[0, 2], 1]]})], True),
        ("resource", "workload-min", [con("WorkLoad", "x", resource=R("w"), kind="min", dict_time_intervals_and_bound={"$tupkeys": [[[1, 3], 2]]})], True),
        ("resource", "periodic", [con("ResourcePeriodicallyUnavailable", "x", resource=R("w"), list_of_time_intervals=[(0, 1)], period=3)], True),
        ("resource", "interrupted", [con("ResourceInterrupted", "x", resource=R("w"), list_of_time_intervals=[(1, 2)])], True),
        ("resource", "distance", [con("ResourceTasksDistance", "x", resource=R("w"), distance=1, mode="min")], "plain"),
        ("resource", "nondelay", [con("ResourceNonDelay", "x", resource=R("w"))], "plain"),
        ("buffer", "nc-buffer", [new("NonConcurrentBuffer", "bf", name="bf", initial_level=1, final_level=0, lower_bound=0),
                                 con("TaskUnloadBuffer", "u", task=R("a"), buffer=R("bf"), quantity=2), con("TaskLoadBuffer", "l", task=R("b"), buffer=R("bf"), quantity=1)], False),
        ("buffer", "c-buffer", [new("ConcurrentBuffer", "bf", name="bf", initial_level=0, upper_bound=1),
                                con("TaskLoadBuffer", "l", task=R("a"), buffer=R("bf"), quantity=1), con("TaskUnloadBuffer", "u", task=R("b"), buffer=R("bf"), quantity=1)], False),
    ]
    out = []
    for tl, tf in T.items():
        for rl, rdecls in Rs.items():
            if tl == "var+work" and rl == "none":
                continue
            for (kind, xl, xdecls, needs) in X + [("none", "bare", [], False)]:
                if needs and rl == "none":
                    continue
                if needs == "plain" and rl in ("cumulative", "cumulative-p"):
                    continue
                if tier == "quick" and (sum(map(ord, tl + rl + xl)) % 3):
                    continue
                out.append((f"{tl}/{rl}/{xl}", kind if kind != "none" else ("resource0" if rl != "none" else "task0"), prog(H, tf() + list(rdecls) + list(xdecls))))
    return out
