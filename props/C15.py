"""C15 - solver options change performance and search order only, never validity (configuration grid x E1 reference sets)."""
import itertools
import json

from psmc import boot, dsl, run, history as hs, ref, analysis, explore as ex
from psmc.dsl import fixed, var, zero, worker, select, cumul, req, con, prog, R, E, new, const_fn, poly_fn
from . import common, C07, C13

RULE = ("for each program the FULL product optimizer{incremental,optimize} x optimize_priority{pareto,lex,box,weight} x parallel{F,T} x "
        "random_values{F,T} x debug{F,T} x logics{None + 24} = 1600 configurations is executed on a fresh problem object; A(P), the "
        "achievable objective values and best* come from E1; whatever is returned under any configuration must be a member of "
        "A(P) whose objective value belongs to that schedule; verdicts are classified sat / definite unsat ('no solution exists') / "
        "unknown from the captured solver text; among definite answers of configurations whose logic covers linear integer "
        "arithmetic, feasibility must agree with A(P) and single-objective (and weighted-sum) optima must equal best*; "
        "non-trivial = configurations that returned a definite answer")
ASSUME = ["A(P) and best* from E1 with the default configuration's assertion set (z3 trusted on pinned ground queries)",
          "logics that contain QF_LIA are taken to cover the linear programs; others are only required to return valid schedules",
          "z3's internal multithreading (parallel=True) is not controlled: only model-independent outcomes are compared"]

LOGICS = [None, "QF_LRA", "HORN", "QF_LIA", "QF_RDL", "QF_IDL", "QF_AUFLIA", "QF_ALIA", "QF_AUFLIRA", "QF_AUFNIA", "QF_AUFNIRA", "QF_ANIA", "QF_LIRA",
          "QF_UFLIA", "QF_UFLRA", "QF_UFIDL", "QF_UFRDL", "QF_NIRA", "QF_UFNRA", "QF_UFNIA", "QF_UFNIRA", "QF_S", "QF_SLIA", "UFIDL", "QF_FPLRA"]
COVER_LIA = {None, "QF_LIA", "QF_AUFLIA", "QF_ALIA", "QF_AUFLIRA", "QF_AUFNIA", "QF_AUFNIRA", "QF_ANIA", "QF_LIRA", "QF_UFLIA", "QF_NIRA",
             "QF_UFNIA", "QF_UFNIRA", "QF_SLIA"}


def configs():
    out = []
    for opt, pri, par, rnd, dbg, lg in itertools.product(("incremental", "optimize"), ("pareto", "lex", "box", "weight"), (False, True),
                                                         (False, True), (False, True), LOGICS):
        kw = {"optimizer": opt, "optimize_priority": pri, "parallel": par, "random_values": rnd, "debug": dbg}
        if lg is not None:
            kw["logics"] = lg  # (None must be expressed by omitting the argument)
        out.append(kw)
    return out


def programs(tier):
    out = []
    W2 = [fixed("a", 1), fixed("b", 2), worker("w"), req("a", "w"), req("b", "w")]
    out.append(("feasible", prog(3, W2), "lia"))
    out.append(("infeasible", prog(2, W2), "lia"))
    out.append(("min-makespan", prog(4, W2 + [new("ObjectiveMinimizeMakespan", "o")]), "lia"))
    out.append(("max-startlatest", prog(3, [fixed("a", 1), fixed("b", 2), new("ObjectiveTasksStartLatest", "o")]), "lia"))
    out.append(("two-objectives", prog(4, W2 + [new("ObjectiveMinimizeMakespan", "o1"), new("ObjectiveMinimizeFlowtime", "o2")]), "lia"))
    out.append(("select+optional", prog(3, [fixed("a", 1, optional=True), fixed("b", 2), worker("w"), worker("v"), select("s", ["w", "v"]), req("a", "s"), req("b", "w"),
                                            con("TaskStartAfter", "c", task=R("b"), value=1)]), "lia"))
    out.append(("concurrent-buffer", prog(3, [fixed("a", 1), fixed("b", 1), new("ConcurrentBuffer", "bf", name="bf", initial_level=2, lower_bound=0, upper_bound=2),
                                              con("TaskUnloadBuffer", "u", task=R("a"), buffer=R("bf"), quantity=2),
                                              con("TaskLoadBuffer", "u2", task=R("b"), buffer=R("bf"), quantity=1)]), "quantified"))
    for watched in ("w", "v"):
        out.append((f"min-utilization-select/{watched}", prog(2, [fixed("a", 2), worker("w"), worker("v"), select("s", ["w", "v"]), req("a", "s"),
                                                                  new("IndicatorResourceUtilization", "i", resource=R(watched)),
                                                                  new("ObjectiveMinimizeIndicator", "o", target=R("i"), weight=1)]), "lia"))
    out.append(("two-max-objectives", prog(3, [fixed("a", 1), fixed("b", 1), worker("w"), req("a", "w"), req("b", "w"),
                                               new("IndicatorFromMathExpression", "i1", name="i1", expression=E(["start", "a"])),
                                               new("IndicatorFromMathExpression", "i2", name="i2", expression=E(["-", 4, ["end", "b"]])),
                                               new("ObjectiveMaximizeIndicator", "o1", target=R("i1"), weight=1),
                                               new("ObjectiveMaximizeIndicator", "o2", target=R("i2"), weight=2)]), "lia"))
    # no user horizon (always with a makespan objective, so that every returned schedule lies in the explored box)
    out.append(("free-horizon/release", prog(None, [fixed("a", 2, release_date=3), fixed("b", 1), worker("w"), req("a", "w"), req("b", "w"),
                                                    new("ObjectiveMinimizeMakespan", "o")], H=6), "lia"))
    out.append(("free-horizon/startat", prog(None, [fixed("a", 1), con("TaskStartAt", "c", task=R("a"), value=4), new("ObjectiveMinimizeMakespan", "o")], H=6), "lia"))
    out.append(("two-objectives-w23", prog(4, W2 + [new("IndicatorFromMathExpression", "i1", name="i1", expression=E(["end", "a"])),
                                                    new("IndicatorFromMathExpression", "i2", name="i2", expression=E(["start", "b"])),
                                                    new("ObjectiveMinimizeIndicator", "o1", target=R("i1"), weight=2),
                                                    new("ObjectiveMinimizeIndicator", "o2", target=R("i2"), weight=3)]), "lia"))
    out.append(("infeasible-by-constraint", prog(3, [fixed("a", 2), fixed("b", 2), con("TasksDontOverlap", "c", task_1=R("a"), task_2=R("b"))]), "lia"))
    if tier == "thorough":
        out.append(("nonconcurrent-buffer", prog(3, [fixed("a", 1), fixed("b", 1), new("NonConcurrentBuffer", "bf", name="bf", initial_level=1, lower_bound=0),
                                                     con("TaskUnloadBuffer", "u", task=R("a"), buffer=R("bf"), quantity=1),
                                                     con("TaskLoadBuffer", "l", task=R("b"), buffer=R("bf"), quantity=1)]), "arrays"))
        out.append(("quadratic-cost", prog(3, [var("a", min_duration=1, max_duration=2), worker("w", cost=poly_fn([1, 0, 1])), req("a", "w"),
                                               new("ObjectiveMinimizeResourceCost", "o", list_of_resources=[R("w")])]), "nonlinear"))
        out.append(("min-flowtime", prog(3, [fixed("a", 1), fixed("b", 1), worker("w"), req("a", "w"), req("b", "w"), new("ObjectiveMinimizeFlowtime", "o")]), "lia"))
        out.append(("max-utilization", prog(4, [var("a", max_duration=4), worker("w"), req("a", "w"), new("ObjectiveMaximizeResourceUtilization", "o", resource=R("w"))]), "lia"))
        out.append(("cumulative", prog(2, [fixed("a", 2), fixed("b", 2), fixed("c", 1), cumul("k", 2), req("a", "k"), req("b", "k"), req("c", "k")]), "lia"))
        out.append(("periodic", prog(4, [fixed("a", 2), worker("w"), req("a", "w"), con("ResourcePeriodicallyUnavailable", "c", resource=R("w"), list_of_time_intervals=[(0, 1)], period=3)]), "lia"))
        out.append(("optional-rules", prog(2, [fixed("a", 1, optional=True), fixed("b", 1, optional=True),
                                               con("ForceScheduleNOptionalTasks", "r", list_of_optional_tasks=[R("a"), R("b")], nb_tasks_to_schedule=1, kind="exact")]), "lia"))
        out.append(("fol", prog(3, [fixed("a", 1), fixed("b", 1), con("Xor", "x", constraint_1={"$new": con("TaskStartAt", "n1", task=R("a"), value=0)},
                                                                      constraint_2={"$new": con("TaskStartAt", "n2", task=R("b"), value=0)})]), "lia"))
    return out


_ref_cache = {}


def reference(program):
    k = dsl.pkey(program)
    if k in _ref_cache:
        return _ref_cache[k]
    n_obj = len([d for d in program["decls"] if d["k"] == "new" and d["cls"].startswith("Objective")])
    if n_obj:
        values, kind, timings, by_timing, stats, built, nleaves = C07.objective_values(program)
        best = min(values) if kind == "min" else max(values)
        out = {"timings": timings, "by_timing": by_timing, "best": best, "kind": kind, "n_obj": n_obj, "checks": stats.checks, "leaves": nleaves}
    else:
        leaves, stats, prims, built, solver = hs.admitted_set(program)
        out = {"timings": {hs.timing_of_leaf(program, l) for l in leaves}, "by_timing": None, "best": None, "kind": None, "n_obj": 0,
               "checks": stats.checks, "leaves": len(leaves)}
    _ref_cache[k] = out
    return out


def job(j):
    import processscheduler as ps

    program, cfgs, fragment = j["program"], j["configs"], j["fragment"]
    res = {"ok": True, "family": j["family"], "viol": [], "runs": 0, "definite": 0, "unknown": 0, "raised": 0, "outcomes": set()}
    try:
        R_ = reference(program)
        res["e1_checks"] = R_["checks"] if j.get("first") else 0
        res["e1_leaves"] = R_["leaves"] if j.get("first") else 0
        feasible = bool(R_["timings"])
        sigs = {}

        def record(what, cfg, detail):
            cover = cfg.get("logics") in COVER_LIA
            sig = {"dir": "config", "what": what, "optimizer": cfg["optimizer"], "priority": cfg["optimize_priority"] if cfg["optimizer"] == "optimize" else "-",
                   "debug": cfg["debug"], "logic_covers": cover, "objectives": R_["n_obj"]}
            k = json.dumps(sig, sort_keys=True)
            e = sigs.setdefault(k, [0, None, sig])
            e[0] += 1
            if e[1] is None:
                e[1] = {"program": program, "solver": cfg, "what": what, "detail": detail, "expect": "config", "fragment": fragment}

        for cfg in cfgs:
            res["runs"] += 1
            built = dsl.build(program)
            with boot.no_fd2():
                with boot.quiet(capture=True) as buf:
                    try:
                        solver = ps.SchedulingSolver(problem=built.pb, max_time=30, **cfg)
                        sol = solver.solve()
                        err = None
                    except Exception as e:
                        sol, err = None, f"{type(e).__name__}: {e}"[:120]
            text = buf.getvalue()
            cover = cfg.get("logics") in COVER_LIA and fragment == "lia"
            if err:
                res["raised"] += 1
                res["outcomes"].add(("raise", err[:30]))
                if cover:
                    record("raised", cfg, err)
                continue
            if not sol:
                definite = "no solution exists" in text
                res["definite" if definite else "unknown"] += 1
                res["outcomes"].add("unsat" if definite else "unknown")
                if definite and feasible and cover:
                    record("reported-infeasible-but-feasible", cfg, "")
                continue
            res["definite"] += 1
            tm = hs.timing_of_solution(program, sol)
            if tm not in R_["timings"]:
                record("schedule-outside-admitted-set", cfg, repr(tm))
                continue
            if not feasible:
                record("solution-for-infeasible-problem", cfg, repr(tm))
                continue
            if R_["n_obj"]:
                interrupted = False
                multi = R_["n_obj"] > 1
                weighted = (cfg["optimizer"] == "incremental") or cfg["optimize_priority"] == "weight"
                try:
                    val = solver._model.eval(solver._objective._target, model_completion=True).as_long() if (not multi or weighted) else None
                except Exception:
                    val = None
                res["outcomes"].add(("sat", val))
                if val is not None:
                    if val not in R_["by_timing"][tm]:
                        record("objective-value-not-of-this-schedule", cfg, f"{val} vs {sorted(R_['by_timing'][tm])}")
                    elif cover and val != R_["best"]:
                        record("not-optimal", cfg, f"returned {val}, best {R_['best']}")
            else:
                res["outcomes"].add("sat")
        for k, (cnt, inst, sig) in sigs.items():
            res["viol"].append({"sig": sig, "count": cnt, "instance": inst})
        if j.get("first"):
            res["sample"] = {"source": dsl.gen_source(program, header=False), "configs_in_this_chunk": len(cfgs), "first_config": cfgs[0],
                             "reference": {"timings": len(R_["timings"]), "best": R_["best"]}}
    except Exception as e:
        import traceback

        res["ok"] = False
        res["error"] = f"{type(e).__name__}: {e}"[:300]
        res["tb"] = traceback.format_exc()[-1500:]
    res["outcomes"] = sorted(map(repr, res["outcomes"]))
    return res


def replay(inst):
    r = job({"program": inst["program"], "configs": [inst["solver"]], "fragment": inst.get("fragment", "lia"), "family": "replay"})
    bad = [v for v in r.get("viol", []) if v["sig"]["what"] == inst["what"]]
    print(json.dumps({"violation": inst["what"] if bad else None, "outcomes": r.get("outcomes"), "error": r.get("error")}))
    return 1 if bad else 0


def confirm(inst):
    import subprocess
    import sys
    import os

    kws = "".join(f", {k}={v!r}" for k, v in inst["solver"].items())
    inst["standalone"] = ('"""Stand-alone replay generated by /verif.\n' + f"{inst['what']}: {inst['detail']}\n" + '"""\n' + dsl.gen_source(inst["program"])
                          + f"solver = ps.SchedulingSolver(problem=pb{kws})\nsolution = solver.solve()\nprint(solution)\n")
    outs = []
    for _ in range(2):
        p = subprocess.run([sys.executable, "-m", "props.hist_replay", "C15"], input=json.dumps(inst, default=list), capture_output=True,
                           text=True, cwd=run.VERIF, env=dict(os.environ, PYTHONHASHSEED="0"), timeout=300)
        if p.returncode not in (0, 1):
            return False, {"error": p.stderr[-600:]}
        outs.append(json.loads(p.stdout.strip().splitlines()[-1]))
    # (random_values / parallel runs may differ in the model returned: only the verdict has to repeat)
    if bool(outs[0]["violation"]) != bool(outs[1]["violation"]):
        return False, {"error": "replay not deterministic", "obs": outs}
    return bool(outs[0]["violation"]), outs[0]


def witness(entry):
    import io
    import contextlib

    with contextlib.redirect_stdout(io.StringIO()):
        return replay(entry["witness"]) == 1


def main(tier):
    chk = run.Check("C15", tier, RULE)
    chk.assumptions = ASSUME
    cfgs = configs()
    js = []
    nchunk = 16
    for (lab, p, fragment) in programs(tier):
        for c in range(nchunk):
            js.append({"program": p, "configs": cfgs[c::nchunk], "fragment": fragment, "family": lab, "first": c == 0})
    js = common.rotate(js)
    definite = 0
    for status, r in run.pmap(job, js, chunk=1):
        if status == "err" or not r["ok"]:
            chk.error(r if status == "err" else {"error": r["error"], "tb": r["tb"], "family": r["family"]})
            continue
        chk.add(states=r["runs"] + r.get("e1_leaves", 0), transitions=r["runs"] + r.get("e1_checks", 0), evaluations=r["runs"], traces_validated_against_impl=r["runs"],
                programs=1 if r.get("sample") else 0)
        definite += r["definite"]
        chk.family(r["family"], configurations=r["runs"], definite=r["definite"], unknown=r["unknown"], raised=r["raised"])
        chk.cov.setdefault("outcomes_seen", {}).setdefault(r["family"], [])
        chk.cov["outcomes_seen"][r["family"]] = sorted(set(chk.cov["outcomes_seen"][r["family"]]) | set(r["outcomes"]))[:12]
        if r.get("sample"):
            chk.sample(r["sample"])
        for v in r["viol"]:
            chk.violation(v["sig"], v["instance"])
            chk.groups[run.jdump(v["sig"])]["count"] += v["count"] - 1
    chk.cov["distinct_nontrivial"] = definite
    chk.cov["configurations_per_program"] = len(cfgs)
    return chk.finish(confirm=confirm, witness_runner=witness)
