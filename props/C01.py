"""C01 - returned schedules obey task timing: window, duration, release, deadline (E1, direction S)."""
import itertools

from psmc import dsl
from psmc.dsl import fixed, var, zero, worker, select, cumul, req, con, prog, R, E
from . import common

RULE = ("programs: every task type x boundary grid of (duration/min/max/allowed, release, due, deadline, optional, "
        "work_amount), alone and next to one representative of every other element family, horizons {3,5,None}, "
        "solver paths {plain, debug, optimize, QF_LIA}; for each program the whole box start,end in [-1,H+1], "
        "duration in [0,H+1], scheduled flags, free horizon is covered by DFS on the real solver object "
        "(explicit leaves + sub-boxes refuted by the implementation under a pinned prefix); non-trivial = the program "
        "has both admitted leaves and refuted prefixes; distinct = distinct admitted sets")

ASSUME = ["z3 answers on fully pinned ground queries are correct", "the reference clauses for task timing (psmc/ref.py task_clauses)",
          "adapter: documented task unknowns _start/_end/_duration/_scheduled and problem._horizon"]


def task_variants(tier):
    """Yield (label, decl) for one task named 'a'."""
    rels = [None, 0, 1, 2]
    dues = [(None, True), (2, True), (3, True), (2, False), (0, True), (4, True), (6, True)]
    opts = [False, True]
    works = [0]
    if tier == "thorough":
        rels = [None, 0, 1, 2, 4]
        dues = [(None, True), (0, True), (2, True), (3, True), (4, True), (5, True), (7, True), (2, False), (7, False)]
    out = []
    for opt in opts:
        for rel in rels:
            for due, dl in dues:
                kw = {}
                if opt:
                    kw["optional"] = True
                if rel is not None:
                    kw["release_date"] = rel
                if due is not None:
                    kw["due_date"] = due
                    if not dl:
                        kw["due_date_is_deadline"] = False
                for d in ([1, 2, 3] if tier == "thorough" else [1, 2]):
                    out.append(("fixed", fixed("a", d, **kw)))
                out.append(("zero", zero("a", **kw)))
                vgrid = [dict(), dict(min_duration=1), dict(min_duration=2, max_duration=3), dict(max_duration=1),
                         dict(allowed_durations=[1, 3]), dict(min_duration=2, allowed_durations=[1, 3]),
                         # a list is a set of allowed values: repeated or unsorted entries change nothing
                         dict(allowed_durations=[1, 3, 3]), dict(allowed_durations=[3, 1, 1])]
                if tier == "thorough":
                    vgrid += [dict(min_duration=1, max_duration=1), dict(allowed_durations=[2]), dict(max_duration=3),
                              dict(min_duration=0, max_duration=2, allowed_durations=[1, 2, 3])]
                for vk in vgrid:
                    out.append(("var", var("a", **vk, **kw)))
    return out


def companions():
    """One representative of every other element family, attached to task 'a' (and a second task 'b')."""
    b = fixed("b", 1)
    bo = fixed("b", 1, optional=True)
    w = worker("w")
    return {
        "worker": [w, req("a", "w")],
        "worker2tasks": [b, w, req("a", "w"), req("b", "w")],
        "select": [worker("w1"), worker("w2"), select("s", ["w1", "w2"]), req("a", "s")],
        "cumul": [b, cumul("c", 2), req("a", "c"), req("b", "c")],
        "dynamic": [w, req("a", "w", dynamic=True)],
        "delay": [w, req("a", "w", delay_in=1)],
        "precedence": [b, con("TaskPrecedence", "c1", task_before=R("b"), task_after=R("a"))],
        "precedence_opt": [bo, con("TaskPrecedence", "c1", task_before=R("a"), task_after=R("b"), kind="strict")],
        "startat": [con("TaskStartAt", "c1", task=R("a"), value=1)],
        "endbefore": [con("TaskEndBefore", "c1", task=R("a"), value=3, kind="strict")],
        "dontoverlap": [b, con("TasksDontOverlap", "c1", task_1=R("a"), task_2=R("b"))],
        "contiguous": [b, con("TasksContiguous", "c1", list_of_tasks=[R("a"), R("b")])],
        "group": [b, con("UnorderedTaskGroup", "c1", list_of_tasks=[R("a"), R("b")], time_interval=(0, 3))],
        "schedulen": [b, con("ScheduleNTasksInTimeIntervals", "c1", list_of_tasks=[R("a"), R("b")],
                             nb_tasks_to_schedule=1, list_of_time_intervals=[(0, 2)], kind="min")],
        "unavailable": [w, req("a", "w"), con("ResourceUnavailable", "c1", resource=R("w"), list_of_time_intervals=[(1, 2)])],
        "workload": [w, req("a", "w"), con("WorkLoad", "c1", resource=R("w"),
                                           dict_time_intervals_and_bound={"$tupkeys": [[[0, 2], 1]]})],
        "interrupted": [w, req("a", "w"), con("ResourceInterrupted", "c1", resource=R("w"), list_of_time_intervals=[(1, 2)])],
        "buffer": [dsl.new("NonConcurrentBuffer", "bf", name="bf", initial_level=2),
                   con("TaskUnloadBuffer", "c1", task=R("a"), buffer=R("bf"), quantity=1)],
        "cbuffer": [b, dsl.new("ConcurrentBuffer", "bf", name="bf", initial_level=0, upper_bound=2),
                    con("TaskLoadBuffer", "c1", task=R("a"), buffer=R("bf"), quantity=1),
                    con("TaskLoadBuffer", "c2", task=R("b"), buffer=R("bf"), quantity=1)],
        "not": [con("Not", "c1", constraint={"$new": con("TaskStartAt", "n1", task=R("a"), value=0)})],
        "optcon": [con("TaskStartAt", "c1", task=R("a"), value=1, optional=True)],
        "indicator": [w, req("a", "w"), dsl.new("IndicatorResourceUtilization", "i1", resource=R("w")),
                      dsl.new("IndicatorTardiness", "i2") if False else dsl.new("IndicatorNumberTasksAssigned", "i2", resource=R("w"))],
        "objective_makespan": [dsl.new("ObjectiveMinimizeMakespan", "o1")],
        "objective_flowtime": [b, dsl.new("ObjectiveMinimizeFlowtime", "o1")],
        "objective_startlatest": [dsl.new("ObjectiveTasksStartLatest", "o1")],
    }


def jobs(tier):
    out = []
    variants = task_variants(tier)
    horizons = [3, 5, None] if tier == "quick" else [3, 4, 6, None]
    # 1. singles, every variant x horizon x solver path
    paths = [("plain", {}), ("debug", {"debug": True}), ("qf_lia", {"logics": "QF_LIA"})]
    for H in horizons:
        for (lab, t) in variants:
            for pname, skw in paths:
                if pname != "plain" and H != 3:
                    continue
                out.append({"program": prog(H, [t], H=H if H else 4), "solver": skw, "families": ["task"],
                            "family": f"single/{lab}/{pname}"})
    # optimize path needs an objective
    for (lab, t) in variants:
        out.append({"program": prog(3, [t, dsl.new("ObjectiveMinimizeMakespan", "o1")]),
                    "solver": {"optimizer": "optimize"}, "families": ["task"], "family": f"single/{lab}/optimize"})
    # 2. two tasks of the grid side by side (every pair of a reduced grid)
    red = [v for i, v in enumerate(variants) if i % (7 if tier == "quick" else 3) == 0]
    for (l1, t1), (l2, t2) in itertools.combinations(red, 2):
        t2 = dict(t2, id="b", args=dict(t2["args"], name="b"))
        out.append({"program": prog(4, [t1, t2]), "families": ["task"], "family": "pair"})
    # 3. each variant (reduced) next to one representative of every other family
    comp = companions()
    red2 = [v for i, v in enumerate(variants) if i % (5 if tier == "quick" else 2) == 0]
    for cname, decls in comp.items():
        for (lab, t) in red2:
            if cname in ("interrupted",) and t["cls"] == "ZeroDurationTask":
                pass
            for H in ([4] if tier == "quick" else [4, None]):
                out.append({"program": prog(H, [t] + decls, H=4), "families": ["task"], "family": f"with/{cname}"})
    return out


def main(tier):
    js = jobs(tier)
    # built in two stages with a throw-away solve in between: state left in the problem / tasks by an earlier solver
    sub = [j for j in js if j["family"].startswith(("pair", "with/"))]
    js += common.staged(sub, stride=2, kinds=("solve", "init", "older"))
    # ... and with the solver object created before the declarations
    js += common.early(sub, stride=3)
    return common.run_space_check("C01", tier, js, RULE, ASSUME,
                                  budget_s=480 if tier == "quick" else 3000)
