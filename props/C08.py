"""C08 - reported indicator values equal their definition on the reported schedule (E1; indicator unknown as an extra primary)."""
import itertools

from psmc import dsl, analysis, ref, explore as ex
from psmc.dsl import fixed, var, zero, worker, select, cumul, req, con, prog, R, E, new, const_fn, lin_fn, poly_fn, setattr_
from . import common

RULE = ("programs: every indicator class and every objective-created indicator on scenes of 1-3 tasks with workers, alternative "
        "selections, optional tasks, buffers and cost functions (constant, linear incl. negative slope, quadratic), horizons "
        "{3,4,5,6,7,8} plus free horizon; for every admitted leaf of the whole box the indicator unknown is pinned to every value of "
        "[ref-3, ref+3] + {0, 100}: the set of admitted values must be non-empty and inside the reference's tolerance set (so the "
        "indicator is determined and equals its definition); the value reported by solve() under pins is checked as well; "
        "IndicatorTarget / IndicatorBounds are judged as constraints on every admitted leaf; non-trivial = program with at "
        "least two distinct reference values over its admitted leaves")
ASSUME = ["z3 answers on fully pinned ground queries are correct (nonlinear cost functions: undecided leaves counted and excluded)",
          "reference definitions indicator_values in psmc/ref.py; tolerance: utilisation |r-100*busy/H|<1, cost trapezoid halved up or down"]

FAM = ["task", "resource", "constraint", "buffer"]
IND_CLS = {"IndicatorResourceUtilization", "IndicatorNumberTasksAssigned", "IndicatorResourceCost", "IndicatorResourceIdle",
           "IndicatorTardiness", "IndicatorEarliness", "IndicatorNumberOfTardyTasks", "IndicatorMaximumLateness",
           "IndicatorMaxBufferLevel", "IndicatorMinBufferLevel", "IndicatorFromMathExpression"}
OBJ_CLS = {"ObjectiveMaximizeResourceUtilization", "ObjectiveMinimizeResourceCost", "ObjectiveMinimizeFlowtime", "ObjectivePriorities",
           "ObjectiveTasksStartEarliest", "ObjectiveTasksStartLatest", "ObjectiveMinimizeGreatestStartTime",
           "ObjectiveMinimizeFlowtimeSingleResource", "ObjectiveMaximizeMaxBufferLevel", "ObjectiveMinimizeMaxBufferLevel"}


def ind_var(built, d):
    o = built.obj(d["id"])
    if d["cls"] in OBJ_CLS:
        return o._target, o.target.name
    return o._indicator_variable, o.name


def indicator_check(program, built, solver, prims, leaves, job):
    import z3

    out = []
    zs = solver._solver
    inds = [d for d in program["decls"] if d["k"] == "new" and d["cls"] in (IND_CLS | OBJ_CLS)]
    has_obj = bool(built.pb.objectives)
    distinct_vals = set()
    twins = program.get("same_value") or []
    for leaf in leaves:
        view = ref.View(program, leaf)
        unsched = any(not s for s in view.sched.values())
        sol = None
        # indicators declared over the same resources in another order must take the same value in every model
        for (i_a, i_b) in twins:
            va, _na = ind_var(built, view.dd[i_a])
            vb, _nb = ind_var(built, view.dd[i_b])
            zs.push()
            try:
                zs.add(*ex.pins_of(prims, leaf))
                zs.add(va != vb)
                differ = zs.check() == z3.sat
                vals = (zs.model().eval(va, model_completion=True).as_long(), zs.model().eval(vb, model_completion=True).as_long()) if differ else None
            finally:
                zs.pop()
            if differ:
                sig = {"dir": "indicator", "what": "depends-on-the-order-of-its-list", "cls": view.dd[i_a]["cls"], "with_unscheduled_task": unsched}
                out.append((sig, {"program": program, "leaf": analysis._leaf_list(leaf), "expect": "indicator", "solver": {}, "indicator": _na,
                                  "indicator_id": i_a, "reference_values": [vals[1]], "admitted_values": [vals[0]]}))
        if not has_obj:
            sol = analysis.solve_under_pins(solver, prims, leaf)
            if isinstance(sol, analysis.Raised):
                out.append(analysis.raised_violation(program, leaf, sol))
                sol = None
        for d in inds:
            ok = ref.indicator_values(view, d)
            if ok is None:
                continue
            v, name = ind_var(built, d)
            distinct_vals.add((d["id"], min(ok)))
            cands = sorted(set(range(min(ok) - 3, max(ok) + 4)) | {0, 100})
            admitted = []
            zs.push()
            try:
                zs.add(*ex.pins_of(prims, leaf))
                for c in cands:
                    zs.push()
                    zs.add(v == c)
                    r = zs.check()
                    zs.pop()
                    if r == z3.sat:
                        admitted.append(c)
            finally:
                zs.pop()
            bad = [c for c in admitted if c not in ok]
            sig = None
            if not admitted:
                sig = {"dir": "indicator", "what": "definition-value-rejected", "cls": d["cls"]}
            elif bad:
                what = "under-determined" if len(admitted) > 1 and any(c in ok for c in admitted) else "wrong-value"
                sig = {"dir": "indicator", "what": what, "cls": d["cls"]}
            if sig is None and sol and sol.indicators.get(name) not in ok:
                sig = {"dir": "indicator", "what": "reported-value-differs", "cls": d["cls"]}
                admitted = [sol.indicators.get(name)]
            if sig is not None:
                sig["with_unscheduled_task"] = unsched
                if d["cls"] in ("IndicatorResourceCost", "ObjectiveMinimizeResourceCost"):
                    sig["cost"] = sorted({_cost_cls(view, view.dd[r["$"]]["args"].get("cost")) for r in d["args"]["list_of_resources"]})
                out.append((sig, {"program": program, "leaf": analysis._leaf_list(leaf), "expect": "indicator", "solver": {},
                                  "indicator": name, "indicator_id": d["id"], "admitted_values": admitted, "reference_values": sorted(ok)}))
    job["_distinct"] = len(distinct_vals)
    return out


analysis.POST["indicators"] = indicator_check


def scenes(tier):
    """(label, decls, H list)"""
    out = []
    W2 = [worker("w"), req("a", "w"), req("b", "w")]
    out.append(("F1F2", [fixed("a", 1), fixed("b", 2)] + W2))
    out.append(("F2V", [fixed("a", 2), var("b", max_duration=2)] + W2))
    out.append(("F1oF2", [fixed("a", 1, optional=True), fixed("b", 2)] + W2))
    out.append(("sel", [fixed("a", 1), fixed("b", 2), worker("w"), worker("v"), select("s", ["w", "v"]), req("a", "s"), req("b", "w")]))
    if tier in ("thorough", "deep"):
        out.append(("3", [fixed("a", 1), fixed("b", 1), fixed("c", 2), worker("w")] + [req(i, "w") for i in "abc"]))
        out.append(("dyn", [fixed("a", 2), fixed("b", 1), worker("w"), req("a", "w", dynamic=True), req("b", "w")]))
    return out


def resource_indicators(tier):
    out = [("utilization", [new("IndicatorResourceUtilization", "i1", resource=R("w"))]),
           ("assigned", [new("IndicatorNumberTasksAssigned", "i1", resource=R("w"))]),
           ("idle", [new("IndicatorResourceIdle", "i1", resource=R("w"))]),
           ("obj-utilization", [new("ObjectiveMaximizeResourceUtilization", "i1", resource=R("w"))]),
           ("obj-flowtime-single", [new("ObjectiveMinimizeFlowtimeSingleResource", "i1", resource=R("w"))])]
    return out


def _cost_cls(view, f):
    if f is None:
        return "none"
    return f["$new"]["cls"] if "$new" in f else view.dd[f["$"]]["cls"] + "/declared"


def cost_fns(tier):
    fns = [("const2", const_fn(2)), ("const1", const_fn(1)), ("lin+", lin_fn(1, 1)), ("lin-", lin_fn(-1, 6)), ("lin2", lin_fn(2, 0)),
           ("quad", poly_fn([1, 0, 1]))]
    if tier in ("thorough", "deep"):
        fns += [("const0", const_fn(0)), ("quad2", poly_fn([1, 1, 0])), ("lin3", lin_fn(3, 1))]
    return fns


def jobs(tier):
    out = []
    Hs = [4, 7] if tier == "quick" else [3, 4, 5, 6, 7, 8]
    post = {"families": FAM, "directions": "S", "post": "indicators"}
    for (slab, sdecls) in scenes(tier):
        for (ilab, idecls) in resource_indicators(tier):
            for H in (Hs if ilab in ("utilization", "obj-utilization") else Hs[:1]):
                out.append(dict(post, program=prog(H, sdecls + idecls), family=ilab))
            if ilab in ("utilization", "obj-utilization"):
                out.append(dict(post, program=prog(None, sdecls + idecls, H=3), family=ilab + "/free-horizon"))
    # big horizons for the utilisation rounding (one task, so that the box stays small)
    for H in ((3, 6, 7, 9, 11, 13) if tier == "quick" else (3, 6, 7, 8, 9, 11, 12, 13, 14, 15)):
        out.append(dict(post, program=prog(H, [var("a", max_duration=H), worker("w"), req("a", "w"),
                                               new("IndicatorResourceUtilization", "i1", resource=R("w"))]), family="utilization/H"))
    # costs
    for (flab, f) in cost_fns(tier):
        for (slab, sdecls) in [("F1F2", [fixed("a", 1), fixed("b", 2), worker("w", cost=f), req("a", "w"), req("b", "w")]),
                               ("V", [var("a", max_duration=3), worker("w", cost=f), req("a", "w")]),
                               ("sel", [fixed("a", 2), worker("w", cost=f), worker("v", cost=const_fn(1)), select("s", ["w", "v"]), req("a", "s")])]:
            out.append(dict(post, program=prog(4, sdecls + [new("IndicatorResourceCost", "i1", list_of_resources=[R("w")])]), family="cost/" + flab))
        out.append(dict(post, program=prog(4, [fixed("a", 2), fixed("b", 1), worker("w", cost=f), worker("v", cost=const_fn(3)), req("a", "w"), req("b", "v"),
                                               new("ObjectiveMinimizeResourceCost", "i1", list_of_resources=[R("w"), R("v")])]), family="cost-obj/" + flab))
    # due-date indicators
    for oa in (False, True):
        for (cls) in ("IndicatorTardiness", "IndicatorEarliness", "IndicatorNumberOfTardyTasks", "IndicatorMaximumLateness"):
            ka = dict(due_date=2, due_date_is_deadline=False, **({"optional": True} if oa else {}))
            kb = dict(due_date=3, due_date_is_deadline=False)
            for ts in ([fixed("a", 1, **ka), fixed("b", 2, **kb)], [var("a", max_duration=2, **ka), fixed("b", 1, **kb)]):
                out.append(dict(post, program=prog(4, ts + [new(cls, "i1")]), family=cls))
                out.append(dict(post, program=prog(4, ts + [new(cls, "i1", list_of_tasks=[R("b")])]), family=cls + "/list"))
    # ... with priorities (tardiness is weighted by them) on mandatory and optional tasks
    for cls in ("IndicatorTardiness", "IndicatorEarliness", "IndicatorNumberOfTardyTasks", "IndicatorMaximumLateness"):
        for ob in (False, True):
            ts = [fixed("a", 1, due_date=1, due_date_is_deadline=False, priority=3, optional=True),
                  fixed("b", 2, due_date=2, due_date_is_deadline=False, priority=2, **({"optional": True} if ob else {}))]
            out.append(dict(post, program=prog(4, ts + [new(cls, "i1")]), family=cls + "/priorities"))
    # several busy intervals of odd doubled area each (the halving of the trapezoid sum happens once, on the total)
    for (flab, f) in (("lin+", lin_fn(1, 0)), ("lin3", lin_fn(3, 1)), ("quad", poly_fn([1, 0, 1]))):
        out.append(dict(post, program=prog(4, [fixed("a", 1), fixed("b", 1), fixed("c", 1), worker("w", cost=f), req("a", "w"), req("b", "w"), req("c", "w"),
                                               new("IndicatorResourceCost", "i1", list_of_resources=[R("w")])]), family="cost/three-intervals/" + flab))
        out.append(dict(post, program=prog(4, [fixed("a", 1), fixed("b", 1), worker("w", cost=f), worker("v", cost=f), req("a", "w"), req("b", "v"),
                                               new("IndicatorResourceCost", "i1", list_of_resources=[R("w"), R("v")])]), family="cost/two-workers/" + flab))
    # a cost function declared as an object of its own, one attribute assigned after construction (before the indicator)
    for (cls, args, attr, val) in (("ConstantFunction", {"value": 2}, "value", 5), ("LinearFunction", {"slope": 1, "intercept": 0}, "slope", 2),
                                   ("LinearFunction", {"slope": 1, "intercept": 0}, "intercept", 3)):
        out.append(dict(post, program=prog(4, [fixed("a", 2), new(cls, "f", **args), worker("w", cost=R("f")), req("a", "w"), setattr_("f", attr, val),
                                               new("IndicatorResourceCost", "i1", list_of_resources=[R("w")])]), family="cost/function-attribute-set"))
    # cost over a list that mixes plain and cumulative workers, in both orders
    for order in (["w", "k"], ["k", "k2"], ["w", "k", "k2"]):
        p_ = prog(3, [fixed("a", 1), fixed("b", 2), worker("w", cost=const_fn(2)), cumul("k", 2, cost=const_fn(4)), cumul("k2", 2, cost=const_fn(2)),
                      req("a", "w"), req("b", "k"), req("a", "k2"), new("IndicatorResourceCost", "i1", list_of_resources=[R(x) for x in order]),
                      new("IndicatorResourceCost", "i2", list_of_resources=[R(x) for x in reversed(order)])])
        p_["same_value"] = [["i1", "i2"]]
        out.append(dict(post, program=p_, family="cost/mixed-list"))
    # objective-created indicators
    for cls in ("ObjectiveMinimizeFlowtime", "ObjectivePriorities", "ObjectiveTasksStartEarliest", "ObjectiveTasksStartLatest", "ObjectiveMinimizeGreatestStartTime"):
        for ts in ([fixed("a", 1), fixed("b", 2, priority=2)], [fixed("a", 1, optional=True, priority=3), var("b", max_duration=2)],
                   [fixed("a", 1), fixed("b", 1), fixed("c", 2, priority=2)] if tier in ("thorough", "deep") else [fixed("a", 2, priority=0), fixed("b", 1)]):
            out.append(dict(post, program=prog(4 if len(ts) < 3 else 3, ts + [new(cls, "i1")]), family=cls))
    for cls in ("ObjectiveMinimizeFlowtime", "ObjectiveTasksStartLatest", "ObjectiveMinimizeGreatestStartTime"):
        out.append(dict(post, program=prog(4, [fixed("a", 1), fixed("b", 2), new(cls, "i1", list_of_tasks=[R("b")])]), family=cls + "/list"))
    # buffers
    for bcls in ("NonConcurrentBuffer", "ConcurrentBuffer"):
        for icls in ("IndicatorMaxBufferLevel", "IndicatorMinBufferLevel", "ObjectiveMaximizeMaxBufferLevel", "ObjectiveMinimizeMaxBufferLevel"):
            out.append(dict(post, program=prog(4, [fixed("a", 1), fixed("b", 2), new(bcls, "bf", name="bf", initial_level=2),
                                                   con("TaskUnloadBuffer", "u0", task=R("a"), buffer=R("bf"), quantity=2),
                                                   con("TaskLoadBuffer", "l1", task=R("b"), buffer=R("bf"), quantity=3),
                                                   new(icls, "i1", buffer=R("bf"))]), family=icls))
    # math expressions
    for (lab, e) in (("end", ["end", "b"]), ("diff", ["-", ["start", "b"], ["end", "a"]]), ("sq", ["*", ["-", ["start", "a"], ["end", "b"]], ["-", ["start", "a"], ["end", "b"]]]),
                     ("lin", ["+", ["*", 2, ["start", "a"]], ["dur", "b"]])):
        out.append(dict(post, program=prog(4, [fixed("a", 1), var("b", max_duration=2), new("IndicatorFromMathExpression", "i1", name="i1", expression=E(e))]),
                        family="expr/" + lab))
    # targets and bounds (judged as constraints, both directions)
    base = [fixed("a", 1), fixed("b", 2), worker("w"), req("a", "w"), req("b", "w")]
    for v in (0, 1, 2):
        out.append(dict(post, directions="SK", program=prog(4, base + [new("IndicatorResourceIdle", "i1", resource=R("w")),
                                                                        con("IndicatorTarget", "c1", indicator=R("i1"), value=v)]), family="target"))
    for lo, up in ((None, 0), (1, None), (0, 1), (None, 2)):
        kw = {}
        if lo is not None:
            kw["lower_bound"] = lo
        if up is not None:
            kw["upper_bound"] = up
        out.append(dict(post, directions="SK", program=prog(4, base + [new("IndicatorResourceIdle", "i1", resource=R("w")),
                                                                        con("IndicatorBounds", "c1", indicator=R("i1"), **kw)]), family="bounds"))
        out.append(dict(post, directions="SK", program=prog(4, [fixed("a", 1, due_date=1, due_date_is_deadline=False), fixed("b", 2, due_date=2, due_date_is_deadline=False),
                                                                 new("IndicatorTardiness", "i1"), con("IndicatorBounds", "c1", indicator=R("i1"), **kw)]), family="bounds"))
    return out


def confirm(inst):
    if inst.get("expect") in ("accept", "reject"):
        return common.confirm_instance(inst)
    from psmc import run, replay
    leaf = list(inst["leaf"])
    # pin the indicator to the first admitted non-reference value (or let the solver report its value)
    bad = [v for v in inst["admitted_values"] if v not in inst["reference_values"]]
    if bad and bad[0] is not None:
        leaf = leaf + [[["ind", inst["indicator_id"]], bad[0]]]
    prog_ = inst["program"]
    is_obj = any(d.get("id") == inst["indicator_id"] and d["cls"].startswith("Objective") for d in prog_["decls"])
    if is_obj:
        leaf = list(inst["leaf"])
    obs, err = run.fresh_replay({"program": prog_, "leaf": leaf, "solver": {"max_iter": 1} if is_obj else {}})
    inst["standalone"] = replay.standalone_source(prog_, [(tuple(k), v) for k, v in leaf], None, {},
                                                  note=f"indicator '{inst['indicator']}' must be in {inst['reference_values']} on this schedule")
    if err:
        return False, err
    if not inst["admitted_values"]:
        return obs["result"] != "solution" or obs["indicators"].get(inst["indicator"]) not in inst["reference_values"], obs
    if obs["result"] != "solution":
        return False, obs
    got = obs["indicators"].get(inst["indicator"])
    if is_obj:
        return True, obs  # objective-created indicators cannot be pinned through the public API; the in-process pinned check stands
    return got not in inst["reference_values"], obs


def witness(entry):
    w = entry["witness"]
    if w.get("expect") in ("accept", "reject"):
        return common.witness_still_fails(entry)
    r = analysis.analyze({"program": w["program"], "families": FAM, "directions": "S", "post": "indicators"})
    from psmc import run
    return any(run.sig_matches(entry["match"], v["sig"]) for v in r.get("viol", []))


def main(tier):
    js = jobs(common.level("C08", tier))
    if common.level("C08", tier) == "deep":
        js = common.widen(js, by=(1, 2, 5))
    return common.run_space_check("C08", tier, js, RULE, ASSUME, budget_s=480 if tier == "quick" else 3000,
                                  confirm=confirm, witness=witness)
