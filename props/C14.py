"""C14 - meaning is independent of names, declaration order and earlier problems (E1 differential + histories)."""
import itertools
import json
import os
import subprocess
import sys

from psmc import boot, dsl, run, analysis, explore as ex, history as hs, ref
from psmc.dsl import fixed, var, zero, worker, select, cumul, req, con, prog, R, E, new, const_fn
from . import common, C07

RULE = ("(1) for programs drawn from every family (selections, optional tasks, buffers, sort-based constraints, indicators, objectives): ALL "
        "permutations of the declaration order inside each stage (tasks, workers, selections, requirements, buffer accesses, "
        "constraints, indicators; product capped and reported) and a set of collision-free name bijections (names permuted among "
        "the elements of a kind, reverse-sorted, long / unicode / spaces, prefix-related t,t_,t1,t10, names shared across kinds); "
        "every variant's admitted set is computed by E1 over the whole box and must equal the base program's admitted set (leaf "
        "keys are declaration ids, so equality is literal), with the same solve() verdict and the same optimum; (2) every sequence "
        "of length <=2 from a menu of earlier activities (build only; build+solve; same names; debug; parallel; random_values; "
        "logics; tiny max_time; optimize) executed in the same interpreter before the target: admitted set, verdict and optimum "
        "must equal those obtained in a fresh interpreter; non-trivial = variants / histories compared")
ASSUME = ["z3 answers on fully pinned ground queries are correct", "names whose DERIVED z3 names collide are excluded by construction (C14 quantifies over collision-free names)"]

STAGES = [("task", dsl.TASK_CLS), ("worker", {"Worker", "CumulativeWorker"}), ("select", {"SelectWorkers"}), ("buffer", {"NonConcurrentBuffer", "ConcurrentBuffer"}),
          ("access", {"TaskLoadBuffer", "TaskUnloadBuffer"}), ("indicator", None), ("objective", None), ("constraint", None)]


def stage_of(d):
    if d["k"] in ("req", "reqs"):
        return "req"
    c = d["cls"]
    for name, classes in STAGES:
        if classes and c in classes:
            return name
    if c.startswith("Indicator") and c not in ("IndicatorTarget", "IndicatorBounds"):
        return "indicator"
    if c.startswith("Objective"):
        return "objective"
    return "constraint"


def refs_ok(decls):
    seen = set()
    for d in decls:
        acc = set()
        if d["k"] == "new":
            analysis._refs_in(d["args"], acc)
            _expr_refs(d["args"], acc)
        elif d["k"] == "req":
            acc |= {d["task"], d["res"]}
        elif d["k"] == "reqs":
            acc |= {d["task"], *d["res"]}
        if not acc <= seen:
            return False
        if d["k"] == "new" and d.get("id"):
            seen.add(d["id"])
    return True


def _expr_refs(v, acc):
    if isinstance(v, dict):
        if "$e" in v:
            _walk_e(v["$e"], acc)
        else:
            for x in v.values():
                _expr_refs(x, acc)
    elif isinstance(v, list):
        for x in v:
            _expr_refs(x, acc)


def _walk_e(a, acc):
    if isinstance(a, list):
        if a and a[0] in ("start", "end", "dur", "sched", "ind", "applied") and len(a) > 1:
            acc.add(a[1])
        if a and a[0] == "sel":
            acc |= {a[1], a[2]}
        for x in a[1:]:
            _walk_e(x, acc)


def order_variants(program, cap):
    """All permutations inside each stage (product over stages), capped; stage slots keep their positions."""
    decls = program["decls"]
    groups = {}
    for i, d in enumerate(decls):
        groups.setdefault(stage_of(d), []).append(i)
    stage_perms = []
    for st, idxs in groups.items():
        if len(idxs) > 1 and st != "objective":
            stage_perms.append((idxs, list(itertools.permutations(idxs))))
    total = 1
    for _i, p in stage_perms:
        total *= len(p)
    out = []
    for combo in itertools.product(*[p for _i, p in stage_perms]):
        new_decls = list(decls)
        for (idxs, _p), perm in zip(stage_perms, combo):
            for slot, src in zip(idxs, perm):
                new_decls[slot] = decls[src]
        if new_decls == decls:
            continue
        if refs_ok(new_decls):
            out.append(dict(program, decls=new_decls))
        if len(out) >= cap:
            break
    return out, total


def rename(program, mapping):
    """Consistent renaming of the library-level `name` arguments (declaration ids stay)."""
    out = []
    for d in program["decls"]:
        if d["k"] == "new" and d["args"].get("name") in mapping:
            d = dict(d, args=dict(d["args"], name=mapping[d["args"]["name"]]))
        out.append(d)
    return dict(program, decls=out)


def name_variants(program):
    names = {}
    for d in program["decls"]:
        if d["k"] == "new" and d["args"].get("name") is not None:
            names.setdefault(stage_of(d), []).append(d["args"]["name"])
    out = []
    tasks = names.get("task", [])
    workers = names.get("worker", [])
    allnames = [n for ns in names.values() for n in ns]
    if len(tasks) > 1:
        out.append(("tasks-rotated", dict(zip(tasks, tasks[1:] + tasks[:1]))))
        out.append(("tasks-reversed-sort", dict(zip(sorted(tasks), sorted(tasks, reverse=True)))))
        out.append(("tasks-prefix-related", dict(zip(tasks, ["t", "t_", "t1", "t10"]))))
    if len(workers) > 1:
        out.append(("workers-rotated", dict(zip(workers, workers[1:] + workers[:1]))))
        out.append(("workers-prefix-related", dict(zip(workers, ["m", "m_1", "m1", "m_"]))))
    for st, ns in names.items():
        if st not in ("task", "worker") and len(ns) > 1:
            out.append((f"{st}s-rotated", dict(zip(ns, ns[1:] + ns[:1]))))
            out.append((f"{st}s-reversed-sort", dict(zip(sorted(ns), sorted(ns, reverse=True)))))
    out.append(("long-unicode-spaces", {n: f"élément {n} – with spaces and a rather long name ({i})" for i, n in enumerate(allnames)}))
    out.append(("zz-prefix", {n: "zz" + n for n in allnames}))
    others = {st: ns for st, ns in names.items() if st not in ("task", "worker")}
    if tasks and others:
        # every other named element (constraint, buffer, indicator, selection ...) takes the name of a task: the
        # registries are separate, names only have to be distinct inside each of them
        m = {}
        for st, ns in others.items():
            for n, t in zip(ns, tasks):
                m[n] = t
        out.append(("named-like-tasks", m))
    if tasks and workers:
        # names shared across kinds: the first task takes the first worker's name and vice versa
        out.append(("shared-across-kinds", {tasks[0]: workers[0], workers[0]: tasks[0]}))
    return [(lab, rename(program, m)) for lab, m in out]


def summary(program, solver_kw=None, between=None):
    """Admitted set (as a sorted list of leaf keys), verdict of solve(), optimum.
    `between` runs after the problem is built and before its solver is created (another problem may be declared there)."""
    import processscheduler as ps

    built = dsl.build(program)
    if between:
        between()
    solver = analysis.make_solver(built, solver_kw)
    prims = ex.primaries(built)
    st = ex.Stats()
    A = sorted(repr(ex.leaf_key(l)) for l in ex.explore(solver._solver, prims, st))
    b2 = dsl.build(program)
    if between:
        between()
    kw = dict(solver_kw or {})
    kw.setdefault("max_time", 30)
    raised = None
    with boot.quiet(capture=True) as buf:
        try:
            s2 = ps.SchedulingSolver(problem=b2.pb, **kw)
            sol = s2.solve()
        except Exception as e:  # an outcome like the others: it is compared with the base run
            sol, raised = None, f"raised {type(e).__name__}: {e}"[:120]
    verdict = raised or ("sat" if sol else ("unsat" if "no solution exists" in buf.getvalue() else "unknown"))
    opt = None
    if sol and b2.pb.objectives and s2._objective is not None:
        try:
            opt = s2._model.eval(s2._objective._target, model_completion=True).as_long()
        except Exception:
            opt = None
    vec = None
    if sol and b2.pb.objectives:
        try:
            vec = [s2._model.eval(o._target, model_completion=True).as_long() for o in list(b2.pb.objectives.values())
                   if o.name != "MinimizeEquivalentObjective"]
        except Exception:
            vec = None
    return {"A": A, "verdict": verdict, "optimum": opt, "objective_vector": vec, "checks": st.checks, "n": len(A)}


def diff(base, other):
    if base["verdict"] != other["verdict"]:
        return "verdict", f"{base['verdict']} vs {other['verdict']}"
    if base["A"] != other["A"]:
        only_b = sorted(set(base["A"]) - set(other["A"]))[:1]
        only_o = sorted(set(other["A"]) - set(base["A"]))[:1]
        return "admitted-set", f"{base['n']} vs {other['n']} leaves; only in base {only_b}; only in variant {only_o}"
    if base["optimum"] != other["optimum"]:
        return "optimum", f"{base['optimum']} vs {other['optimum']}"
    if base.get("lex") and base["objective_vector"] != other["objective_vector"]:
        return "lexicographic-optimum", f"{base['objective_vector']} vs {other['objective_vector']}"
    return None


def programs(tier):
    out = []
    out.append(("select+optional+distance", prog(3, [fixed("a", 1), fixed("b", 1), fixed("o", 1, optional=True), worker("w1"), worker("w2"), select("s", ["w1", "w2"]),
                                                     req("a", "s"), req("b", "w1"), req("o", "w1"), con("ResourceTasksDistance", "c", resource=R("w1"), distance=1, mode="min")])))
    out.append(("two-optional", prog(3, [fixed("a", 1, optional=True), fixed("b", 2, optional=True), fixed("c", 1), worker("w"), req("a", "w"), req("b", "w"), req("c", "w")])))
    out.append(("contiguous", prog(4, [fixed("a", 1), fixed("b", 2, optional=True), fixed("c", 1), con("TasksContiguous", "k", list_of_tasks=[R("a"), R("b"), R("c")])])))
    out.append(("selects", prog(2, [fixed("a", 1), fixed("b", 2), worker("w1"), worker("w2"), worker("w3"), select("s1", ["w1", "w2"]), select("s2", ["w2", "w3"], 1, "min"),
                                    req("a", "s1"), req("b", "s2")])))
    out.append(("buffer", prog(3, [fixed("a", 1), fixed("b", 1), fixed("c", 1), new("ConcurrentBuffer", "bf", name="bf", initial_level=1, lower_bound=0, upper_bound=2),
                                   con("TaskLoadBuffer", "l1", task=R("a"), buffer=R("bf"), quantity=1), con("TaskLoadBuffer", "l2", task=R("b"), buffer=R("bf"), quantity=1),
                                   con("TaskUnloadBuffer", "u1", task=R("c"), buffer=R("bf"), quantity=2)])))
    out.append(("nc-buffer", prog(3, [fixed("a", 1), fixed("b", 1), new("NonConcurrentBuffer", "bf", name="bf", initial_level=1, lower_bound=0),
                                      con("TaskUnloadBuffer", "u1", task=R("a"), buffer=R("bf"), quantity=1), con("TaskLoadBuffer", "l1", task=R("b"), buffer=R("bf"), quantity=1)])))
    out.append(("constraints", prog(3, [fixed("a", 1), fixed("b", 2), con("TaskPrecedence", "c1", task_before=R("a"), task_after=R("b"), kind="strict"),
                                        con("TaskStartAfter", "c2", task=R("a"), value=1, optional=True), con("TaskEndBefore", "c3", task=R("b"), value=3)])))
    out.append(("objective", prog(3, [fixed("a", 1, priority=2), fixed("b", 2), worker("w"), req("a", "w"), req("b", "w"), new("ObjectivePriorities", "o")])))
    out.append(("two-objectives-lex", prog(3, [fixed("a", 1), fixed("b", 1), worker("w"), req("a", "w"), req("b", "w"),
                                               new("IndicatorFromMathExpression", "i1", name="i1", expression=E(["start", "a"])),
                                               new("IndicatorFromMathExpression", "i2", name="i2", expression=E(["start", "b"])),
                                               new("ObjectiveMinimizeIndicator", "o1", target=R("i1"), weight=1), new("ObjectiveMinimizeIndicator", "o2", target=R("i2"), weight=1)])))
    out.append(("two-work-amounts", prog(3, [var("a", work_amount=2, max_duration=3), var("b", work_amount=3, max_duration=3), worker("w1"), worker("w2", productivity=2),
                                             req("a", "w1"), req("b", "w2")])))
    out.append(("startlatest-optional", prog(3, [fixed("a", 1), fixed("o", 1, optional=True), con("OptionalTaskForceSchedule", "f", task=R("o"), to_be_scheduled=False),
                                                 new("ObjectiveTasksStartLatest", "ob")])))
    out.append(("cumulative+idle", prog(3, [fixed("a", 1), fixed("b", 2), fixed("c", 1), cumul("k", 2), worker("w"), req("a", "k"), req("b", "k"), req("c", "w"), req("a", "w"),
                                            new("IndicatorResourceIdle", "i", resource=R("w"))])))
    out.append(("groups", prog(4, [fixed("a", 1), fixed("b", 1, optional=True), fixed("c", 2), con("OrderedTaskGroup", "g", list_of_tasks=[R("a"), R("b"), R("c")], kind="lax"),
                                   con("UnorderedTaskGroup", "u", list_of_tasks=[R("a"), R("c")], time_interval_length=3)])))
    if tier == "thorough":
        out.append(("nondelay+optional", prog(3, [fixed("a", 1, optional=True), fixed("b", 1), fixed("c", 1, optional=True), worker("w"), req("a", "w"), req("b", "w"), req("c", "w"),
                                                  con("ResourceNonDelay", "k", resource=R("w"))])))
        out.append(("schedule-n", prog(3, [fixed("a", 1), fixed("b", 1), fixed("c", 1), con("ScheduleNTasksInTimeIntervals", "k", list_of_tasks=[R("a"), R("b"), R("c")],
                                                                                             nb_tasks_to_schedule=2, list_of_time_intervals=[(0, 2), (1, 3)], kind="min")])))
    return out


def variant_job(j):
    res = {"ok": True, "family": j["family"], "viol": [], "variants": 0, "checks": 0, "leaves": 0, "capped": None}
    try:
        program = j["program"]
        skws = [{}]
        if any(d["k"] == "new" and d["cls"].startswith("Objective") for d in program["decls"]):
            n_obj = sum(1 for d in program["decls"] if d["k"] == "new" and d["cls"].startswith("Objective"))
            skws.append({"optimizer": "optimize", "optimize_priority": "lex"} if n_obj > 1 else {"optimizer": "optimize"})
        sigs = {}
        for skw in skws:
            base = summary(program, skw)
            base["lex"] = skw.get("optimize_priority") == "lex"
            res["checks"] += base["checks"]
            res["leaves"] += base["n"]
            ov, total = order_variants(program, j["cap"])
            if total - 1 > len(ov):
                res["capped"] = f"{len(ov)} of {total - 1} order variants"
            variants = [("order", v) for v in ov] + [("names:" + lab, v) for lab, v in name_variants(program)]
            for (kind, v) in variants:
                res["variants"] += 1
                try:
                    s = summary(v, skw)
                except Exception as e:
                    s = None
                    d_ = ("raised", f"{type(e).__name__}: {e}"[:150])
                if s is not None:
                    res["checks"] += s["checks"]
                    d_ = diff(base, s)
                if d_:
                    sig = {"dir": "variant", "kind": kind.split(":")[0], "what": d_[0], "optimizer": skw.get("optimizer", "incremental")}
                    if kind.startswith("names"):
                        sig["renaming"] = kind.split(":")[1]
                    k = json.dumps(sig, sort_keys=True)
                    e = sigs.setdefault(k, [0, None, sig])
                    e[0] += 1
                    if e[1] is None:
                        e[1] = {"program": program, "variant": v, "solver": skw, "what": d_[0], "detail": d_[1], "expect": "variant"}
        for k, (cnt, inst, sig) in sigs.items():
            res["viol"].append({"sig": sig, "count": cnt, "instance": inst})
        if j.get("want_sample"):
            res["sample"] = {"source": dsl.gen_source(program, header=False), "variants_compared": res["variants"], "admitted_leaves": res["leaves"]}
    except Exception as e:
        import traceback

        res["ok"] = False
        res["error"] = f"{type(e).__name__}: {e}"[:300]
        res["tb"] = traceback.format_exc()[-1500:]
    return res


# --------------------------------------------------------------------------- earlier activities in the same interpreter
def activities():
    def other(name="other", **skw):
        def run_(solve=True):
            import processscheduler as ps

            with boot.no_fd2():
                with boot.quiet():
                    pb = ps.SchedulingProblem(name=name, horizon=5)
                    x = ps.FixedDurationTask(name="x", duration=2)
                    y = ps.FixedDurationTask(name="y", duration=1, optional=True)
                    w = ps.Worker(name="w")
                    x.add_required_resource(w)
                    y.add_required_resource(w)
                    ps.ObjectiveMinimizeMakespan()
                    if solve:
                        ps.SchedulingSolver(problem=pb, **skw).solve()
        return run_

    def same_names():
        import processscheduler as ps

        with boot.quiet():
            pb = ps.SchedulingProblem(name="P", horizon=9)
            a = ps.FixedDurationTask(name="a", duration=3)
            b = ps.VariableDurationTask(name="b", min_duration=2)
            w = ps.Worker(name="w", productivity=3)
            w1 = ps.Worker(name="w1")
            a.add_required_resource(w)
            ps.TaskStartAt(task=a, value=4, name="c")
            ps.SchedulingSolver(problem=pb).solve()

    return [("build-only", lambda: other()(solve=False)), ("solve", other()), ("same-names", same_names), ("debug", other(debug=True)),
            ("parallel", other(parallel=True)), ("random", other(random_values=True)), ("logics", other(logics="QF_LIA")),
            ("tiny-max_time", other(max_time=0.001)), ("optimize", other(optimizer="optimize"))]


def history_targets(tier):
    ps_ = dict(programs(tier))
    out = [("select+optional+distance", ps_["select+optional+distance"], {}), ("objective", ps_["objective"], {}), ("objective/optimize", ps_["objective"], {"optimizer": "optimize"}),
           ("objective/random", ps_["objective"], {"random_values": True}), ("buffer", ps_["buffer"], {}), ("constraints/debug", ps_["constraints"], {"debug": True}),
           ("startlatest-optional", ps_["startlatest-optional"], {})]
    return out


def fresh_summary(program, skw):
    """The target's summary computed in a fresh interpreter."""
    p = subprocess.run([sys.executable, "-m", "props.hist_replay", "C14"], input=json.dumps({"mode": "summary", "program": program, "solver": skw}),
                       capture_output=True, text=True, cwd=run.VERIF, env=dict(os.environ, PYTHONHASHSEED="0"), timeout=300)
    if p.returncode != 0:
        raise RuntimeError(p.stderr[-500:])
    return json.loads(p.stdout.strip().splitlines()[-1])


def history_job(j):
    res = {"ok": True, "family": j["family"], "viol": [], "histories": 0, "checks": 0}
    try:
        acts = dict(activities())
        between = None
        seq = list(j["sequence"])
        if seq and seq[-1].startswith("between:"):
            # the last activity happens AFTER the target problem is declared and BEFORE its solver exists
            between = acts[seq.pop()[len("between:"):]]
        for a in seq:
            acts[a]()
        with boot.no_fd2():
            s = summary(j["program"], j["solver"], between=between)
        res["checks"] = s["checks"]
        res["histories"] = 1
        d_ = diff(j["fresh"], s)
        if d_:
            sig = {"dir": "history", "what": d_[0], "interleaved": bool(j["sequence"] and j["sequence"][-1].startswith("between:"))}
            res["viol"].append({"sig": sig, "count": 1, "instance": {"program": j["program"], "solver": j["solver"], "sequence": j["sequence"], "what": d_[0],
                                                                       "detail": d_[1], "expect": "history"}})
    except Exception as e:
        import traceback

        res["ok"] = False
        res["error"] = f"{type(e).__name__}: {e}"[:300]
        res["tb"] = traceback.format_exc()[-1500:]
    return res


def replay(inst):
    if inst.get("mode") == "summary":
        with boot.no_fd2():
            s = summary(inst["program"], inst["solver"])
        print(json.dumps(s))
        return 0
    if inst.get("expect") == "history":
        fresh = fresh_summary(inst["program"], inst["solver"])
        r = history_job({"program": inst["program"], "solver": inst["solver"], "sequence": inst["sequence"], "fresh": fresh, "family": "replay"})
        bad = r.get("viol")
        print(json.dumps({"violation": bad[0]["instance"]["what"] if bad else None, "detail": bad[0]["instance"]["detail"] if bad else None, "error": r.get("error")}))
        return 1 if bad else 0
    base = summary(inst["program"], inst["solver"])
    base["lex"] = (inst["solver"] or {}).get("optimize_priority") == "lex"
    s = summary(inst["variant"], inst["solver"])
    d_ = diff(base, s)
    print(json.dumps({"violation": d_[0] if d_ else None, "detail": d_[1] if d_ else None}))
    return 1 if d_ else 0


def confirm(inst):
    kws = "".join(f", {k}={v!r}" for k, v in (inst.get("solver") or {}).items())
    if inst.get("expect") == "variant":
        inst["standalone"] = ('"""Stand-alone replay generated by /verif: the two declarations below are the same problem up to names / declaration order,\n'
                              f"but differ in {inst['what']}: {inst['detail']}\n" + '"""\n# --- base\n' + dsl.gen_source(inst["program"])
                              + f"print(ps.SchedulingSolver(problem=pb{kws}).solve())\n# --- variant\n" + dsl.gen_source(inst["variant"], header=False)
                              + f"print(ps.SchedulingSolver(problem=pb{kws}).solve())\n")
    else:
        inst["standalone"] = ('"""Stand-alone replay generated by /verif: run after the activities ' + repr(inst["sequence"]) + f" in the same interpreter; differs in {inst['what']}: {inst['detail']}\n"
                              + '"""\n' + dsl.gen_source(inst["program"]) + f"print(ps.SchedulingSolver(problem=pb{kws}).solve())\n")
    outs = []
    for _ in range(2):
        p = subprocess.run([sys.executable, "-m", "props.hist_replay", "C14"], input=json.dumps(inst, default=list), capture_output=True,
                           text=True, cwd=run.VERIF, env=dict(os.environ, PYTHONHASHSEED="0"), timeout=600)
        if p.returncode not in (0, 1):
            return False, {"error": p.stderr[-600:]}
        outs.append(p.stdout.strip().splitlines()[-1])
    if outs[0] != outs[1]:
        return False, {"error": "replay not deterministic", "obs": outs}
    o = json.loads(outs[0])
    return bool(o["violation"]), o


def witness(entry):
    import io
    import contextlib

    with contextlib.redirect_stdout(io.StringIO()):
        return replay(entry["witness"]) == 1


def main(tier):
    chk = run.Check("C14", tier, RULE)
    chk.assumptions = ASSUME
    cap = 24 if tier == "quick" else 216
    js = [{"program": p, "family": lab, "cap": cap, "want_sample": i % 3 == 0} for i, (lab, p) in enumerate(programs(tier))]
    n_var = 0
    for status, r in run.pmap(variant_job, common.rotate(js), chunk=1):
        if status == "err" or not r["ok"]:
            chk.error(r if status == "err" else {"error": r["error"], "tb": r["tb"], "family": r["family"]})
            continue
        chk.add(programs=1, states=r["leaves"] + r["variants"], transitions=r["checks"], evaluations=r["variants"], traces_validated_against_impl=r["variants"],
                admitted_leaves=r["leaves"])
        n_var += r["variants"]
        chk.family(r["family"], variants=r["variants"])
        if r["capped"]:
            chk.extra.setdefault("order_variants_capped", []).append({r["family"]: r["capped"]})
        if r.get("sample"):
            chk.sample(r["sample"])
        for v in r["viol"]:
            chk.violation(v["sig"], v["instance"])
            chk.groups[run.jdump(v["sig"])]["count"] += v["count"] - 1
    # histories
    names = [a for a, _f in activities()]
    seqs = [[]] + [[a] for a in names] + ([[a, b] for a in names for b in names] if tier == "thorough" else [[a, b] for a in names for b in ("tiny-max_time", "debug", "random", "optimize")])
    seqs += [["between:" + a] for a in ("build-only", "solve", "same-names", "tiny-max_time")] + [["solve", "between:solve"], ["debug", "between:build-only"]]
    hj = []
    for (lab, p, skw) in history_targets(tier):
        try:
            fresh = fresh_summary(p, skw)
        except Exception as e:
            chk.error({"fresh_summary": lab, "error": repr(e)[:400]})
            continue
        for s in seqs:
            hj.append({"program": p, "solver": skw, "sequence": s, "fresh": fresh, "family": "history:" + lab})
    n_hist = 0
    for status, r in run.pmap(history_job, common.rotate(hj), chunk=2):
        if status == "err" or not r["ok"]:
            chk.error(r if status == "err" else {"error": r["error"], "tb": r["tb"], "family": r["family"]})
            continue
        chk.add(states=1, transitions=r["checks"], evaluations=1, traces_validated_against_impl=1)
        n_hist += r["histories"]
        chk.family(r["family"], histories=1)
        for v in r["viol"]:
            chk.violation(v["sig"], v["instance"])
    chk.cov["distinct_nontrivial"] = n_var + n_hist
    chk.cov["variants_compared"] = n_var
    chk.cov["histories_compared_with_fresh_interpreter"] = n_hist
    return chk.finish(confirm=confirm, witness_runner=witness)
