"""C10 - logical combinations and optional constraints mean what their connective says (E1, S and K)."""
import itertools

from psmc import dsl
from psmc.dsl import fixed, var, zero, worker, req, con, prog, R, E, new
from . import common

RULE = ("programs: every connective (Not, And, Or, Xor, Implies, IfThenElse) over every ordered choice of operands from an atom "
        "pool of built-in task constraints and raw expressions on a 2-task scene (lists of 1-3 operands; python and z3 "
        "conditions), all 36 outer x inner connective pairs at depth 2 (depth 3 on a smaller pool in thorough), operands "
        "given inline or declared first and referenced; optional constraints (every class once) with applied flags as "
        "primaries and ForceApplyNOptionalConstraints n x kind; the whole box of both tasks is explored and admitted <=> "
        "formula true under the reference truth tables (both directions: separates or/xor and exposes an operand that "
        "is still enforced on its own); non-trivial = admitted and refuted prefixes both present")
ASSUME = ["z3 answers on fully pinned ground queries are correct", "Kleene truth tables over the reference meaning of the atoms (psmc/ref.py)"]

FAM = ["task", "constraint"]


def atoms():
    """Operand pool: (label, value usable as an operand)."""
    return [
        ("startat", {"$new": con("TaskStartAt", None, task=R("a"), value=1)}),
        ("endat", {"$new": con("TaskEndAt", None, task=R("b"), value=3)}),
        ("prec", {"$new": con("TaskPrecedence", None, task_before=R("a"), task_after=R("b"))}),
        ("sync", {"$new": con("TasksStartSynced", None, task_1=R("a"), task_2=R("b"))}),
        ("e_eq", E(["==", ["start", "a"], 2])),
        ("e_gt", E([">", ["end", "b"], ["end", "a"]])),
        ("e_sum", E(["==", ["+", ["start", "a"], ["start", "b"]], 3])),
        # operands made of SEVERAL assertions
        ("contig", {"$new": con("TasksContiguous", None, list_of_tasks=[R("a"), R("b")])}),
        ("count", {"$new": con("ScheduleNTasksInTimeIntervals", None, list_of_tasks=[R("a"), R("b")], nb_tasks_to_schedule=1,
                               list_of_time_intervals=[(0, 2), (2, 4)], kind="min")}),
    ]


_n = [0]


def _named(v):
    """Give anonymous nested constraints unique names (the library keys constraints by name)."""
    if isinstance(v, dict) and "$new" in v:
        _n[0] += 1
        d = dict(v["$new"])
        d["id"] = f"n{_n[0]}"
        d["args"] = {k: _named(x) for k, x in d["args"].items()}
        d["args"]["name"] = d["id"]
        return {"$new": d}
    if isinstance(v, list):
        return [_named(x) for x in v]
    return v


def mk(cls, *ops, cond=None):
    if cls == "Not":
        return {"$new": con("Not", None, constraint=ops[0])}
    if cls in ("And", "Or"):
        return {"$new": con(cls, None, list_of_constraints=list(ops))}
    if cls == "Xor":
        return {"$new": con("Xor", None, constraint_1=ops[0], constraint_2=ops[1])}
    if cls == "Implies":
        return {"$new": con("Implies", None, condition=cond, list_of_constraints=list(ops))}
    if cls == "IfThenElse":
        h = max(1, len(ops) // 2)
        return {"$new": con("IfThenElse", None, condition=cond, then_list_of_constraints=list(ops[:h]),
                            else_list_of_constraints=list(ops[h:]))}
    raise ValueError(cls)


CONDS = [("c_start", E(["==", ["start", "a"], 0])), ("c_end", E([">=", ["end", "b"], 3])), ("c_true", True), ("c_false", False)]


def top(v):
    """A nested {"$new": decl} turned into a top-level declaration."""
    _n[0] = 0
    d = _named(v)["$new"]
    d["id"] = "top"
    d["args"]["name"] = "top"
    return d


def scene(kind=0):
    if kind == 0:
        return [fixed("a", 1), fixed("b", 2)]
    if kind == 1:
        return [fixed("a", 1, optional=True), var("b", min_duration=1, max_duration=2)]
    return [var("a", max_duration=2), fixed("b", 1, optional=True)]


def formulas(tier):
    A = atoms()
    out = []
    # depth 1
    for (l, a) in A:
        out.append(("Not", mk("Not", a)))
    for (l1, a1), (l2, a2) in itertools.permutations(A, 2):
        out.append(("And", mk("And", a1, a2)))
        out.append(("Or", mk("Or", a1, a2)))
        out.append(("Xor", mk("Xor", a1, a2)))
    for (l1, a1) in A:
        out.append(("Or1", mk("Or", a1)))
        out.append(("And1", mk("And", a1)))
    for trio in list(itertools.combinations(A, 3))[:: (3 if tier == "quick" else 1)]:
        ops = [x[1] for x in trio]
        out.append(("And3", mk("And", *ops)))
        out.append(("Or3", mk("Or", *ops)))
    for (cl, c) in CONDS:
        for (l1, a1) in A:
            out.append(("Implies", mk("Implies", a1, cond=c)))
        for (l1, a1), (l2, a2) in list(itertools.permutations(A, 2))[:: (2 if tier == "quick" else 1)]:
            out.append(("Implies2", mk("Implies", a1, a2, cond=c)))
            out.append(("IfThenElse", mk("IfThenElse", a1, a2, cond=c)))
        for trio in list(itertools.permutations(A[:4], 3))[:: (4 if tier == "quick" else 1)]:
            out.append(("IfThenElse3", mk("IfThenElse", *[x[1] for x in trio], cond=c)))
    # depth 2: every outer x inner pair over a 4-atom pool
    P4 = [A[0][1], A[2][1], A[4][1], A[5][1]]
    conns = ["Not", "And", "Or", "Xor", "Implies", "IfThenElse"]

    def inner(cls, i):
        x, y = P4[i % 4], P4[(i + 1) % 4]
        c = CONDS[i % 2][1]
        return mk(cls, x, y, cond=c) if cls != "Not" else mk("Not", x)

    for outer in conns:
        for inn in conns:
            for i in range(4 if tier == "quick" else 8):
                i1, i2 = inner(inn, i), inner(inn, i + 2)
                other = P4[(i + 3) % 4]
                c = CONDS[(i + 1) % 2][1]
                if outer == "Not":
                    f = mk("Not", i1)
                elif outer in ("And", "Or", "Xor"):
                    f = mk(outer, i1, other) if i % 2 else mk(outer, other, i2)
                elif outer == "Implies":
                    f = mk("Implies", i1, other, cond=c)
                else:
                    f = mk("IfThenElse", i1, other, cond=c) if i % 2 else mk("IfThenElse", other, i2, cond=c)
                out.append((f"{outer}({inn})", f))
    if tier in ("thorough", "deep"):
        # depth 3 on a 3-atom pool
        P3 = [A[0][1], A[2][1], A[4][1]]
        for o1, o2, o3 in itertools.product(["Not", "And", "Or", "Xor", "Implies"], repeat=3):
            f3 = mk(o3, P3[0], P3[1], cond=CONDS[0][1]) if o3 != "Not" else mk("Not", P3[0])
            f2 = mk(o2, f3, P3[2], cond=CONDS[1][1]) if o2 != "Not" else mk("Not", f3)
            f1 = mk(o1, P3[1], f2, cond=CONDS[0][1]) if o1 != "Not" else mk("Not", f2)
            out.append((f"d3:{o1}({o2}({o3}))", f1))
    return out


def optional_constraint_programs(tier):
    """Every constraint class once with optional=True (+ force-apply rules)."""
    out = []
    base = [fixed("a", 1), fixed("b", 2)]
    W = [worker("w"), req("a", "w"), req("b", "w")]
    single = [
        con("TaskStartAt", "c1", task=R("a"), value=1, optional=True),
        con("TaskEndBefore", "c1", task=R("b"), value=2, optional=True),
        con("TaskPrecedence", "c1", task_before=R("a"), task_after=R("b"), kind="tight", optional=True),
        con("TasksStartSynced", "c1", task_1=R("a"), task_2=R("b"), optional=True),
        con("TasksEndSynced", "c1", task_1=R("a"), task_2=R("b"), optional=True),
        con("TasksDontOverlap", "c1", task_1=R("a"), task_2=R("b"), optional=True),
        con("TasksContiguous", "c1", list_of_tasks=[R("a"), R("b")], optional=True),
        con("UnorderedTaskGroup", "c1", list_of_tasks=[R("a"), R("b")], time_interval=(1, 4), optional=True),
        con("OrderedTaskGroup", "c1", list_of_tasks=[R("a"), R("b")], kind="strict", optional=True),
        con("ScheduleNTasksInTimeIntervals", "c1", list_of_tasks=[R("a"), R("b")], nb_tasks_to_schedule=2,
            list_of_time_intervals=[(0, 3)], kind="min", optional=True),
        con("ConstraintFromExpression", "c1", expression=E(["==", ["start", "a"], 2]), optional=True),
        con("Not", "c1", constraint={"$new": con("TaskStartAt", "n1", task=R("a"), value=0)}, optional=True),
        con("Or", "c1", list_of_constraints=[{"$new": con("TaskStartAt", "n1", task=R("a"), value=0)}, E(["==", ["start", "b"], 2])], optional=True),
    ]
    for c in single:
        out.append(("optional:" + c["cls"], prog(4, base + [c])))
    wsingle = [
        con("ResourceUnavailable", "c1", resource=R("w"), list_of_time_intervals=[(0, 2)], optional=True),
        con("WorkLoad", "c1", resource=R("w"), dict_time_intervals_and_bound={"$tupkeys": [[[0, 3], 1]]}, optional=True),
        con("ResourceTasksDistance", "c1", resource=R("w"), distance=1, mode="exact", optional=True),
        con("ResourceNonDelay", "c1", resource=R("w"), optional=True),
        con("ResourceInterrupted", "c1", resource=R("w"), list_of_time_intervals=[(1, 2)], optional=True),
        con("ResourcePeriodicallyUnavailable", "c1", resource=R("w"), list_of_time_intervals=[(0, 1)], period=2, optional=True),
    ]
    for c in wsingle:
        out.append(("optional:" + c["cls"], prog(4, base + W + [c])))
    # force-apply rules over 1-3 optional constraints
    pool = [con("TaskStartAt", "k1", task=R("a"), value=1, optional=True),
            con("TaskStartAt", "k2", task=R("b"), value=0, optional=True),
            con("TaskPrecedence", "k3", task_before=R("b"), task_after=R("a"), optional=True)]
    for m in (1, 2, 3):
        for n in range(1, m + 1):
            for kind in ("exact", "min", "max"):
                out.append(("force-apply", prog(4, base + pool[:m] + [con("ForceApplyNOptionalConstraints", "f1",
                            list_of_optional_constraints=[R(c["id"]) for c in pool[:m]], nb_constraints_to_apply=n, kind=kind)])))
    out.append(("force-apply", prog(4, base + pool + [con("ForceApplyNOptionalConstraints", "f1", optional=True,
                list_of_optional_constraints=[R("k1"), R("k2")], nb_constraints_to_apply=2, kind="exact")])))
    return out


def multi_assertion_operand_programs():
    """Operands whose own meaning is a conjunction of several assertions (each interval / case is one assertion)."""
    base = [fixed("a", 1), fixed("b", 2), worker("w"), req("a", "w"), req("b", "w")]
    un2 = lambda: {"$new": con("ResourceUnavailable", "n1", resource=R("w"), list_of_time_intervals=[(0, 1), (3, 4)])}
    wl = lambda: {"$new": con("WorkLoad", "n1", resource=R("w"), kind="max", dict_time_intervals_and_bound={"$tupkeys": [[[0, 2], 1], [[2, 4], 1]]})}
    out = []
    for lab, mk_ in (("unavailable2", un2), ("workload2", wl)):
        out.append((f"multi:Not/{lab}", prog(4, base + [con("Not", "t", constraint=mk_())])))
        out.append((f"multi:Implies/{lab}", prog(4, base + [con("Implies", "t", condition=E(["==", ["start", "a"], 0]), list_of_constraints=[mk_()])])))
        out.append((f"multi:Or/{lab}", prog(4, base + [con("Or", "t", list_of_constraints=[mk_(), E(["==", ["start", "b"], 2])])])))
        out.append((f"multi:Xor/{lab}", prog(4, base + [con("Xor", "t", constraint_1=mk_(), constraint_2=E(["==", ["start", "b"], 2]))])))
        out.append((f"multi:IfThenElse/{lab}", prog(4, base + [con("IfThenElse", "t", condition=E([">=", ["start", "a"], 2]), then_list_of_constraints=[mk_()],
                                                                else_list_of_constraints=[E([">=", ["start", "b"], 1])])])))
    return out


def referenced_operand_programs():
    """Operands declared first as stand-alone constraints, then used inside a connective by reference."""
    base = [fixed("a", 1), fixed("b", 2)]
    c1 = con("TaskStartAt", "c1", task=R("a"), value=1)
    c2 = con("TaskPrecedence", "c2", task_before=R("b"), task_after=R("a"))
    out = []
    out.append(("ref:Not", prog(4, base + [c1, con("Not", "t", constraint=R("c1"))])))
    out.append(("ref:Or", prog(4, base + [c1, c2, con("Or", "t", list_of_constraints=[R("c1"), R("c2")])])))
    out.append(("ref:Xor", prog(4, base + [c1, c2, con("Xor", "t", constraint_1=R("c1"), constraint_2=R("c2"))])))
    out.append(("ref:Implies", prog(4, base + [c1, c2, con("Implies", "t", condition=E(["==", ["start", "b"], 0]), list_of_constraints=[R("c1"), R("c2")])])))
    out.append(("ref:IfThenElse", prog(4, base + [c1, c2, con("IfThenElse", "t", condition=E(["==", ["start", "b"], 0]),
                                                            then_list_of_constraints=[R("c1")], else_list_of_constraints=[R("c2")])])))
    out.append(("ref:And+Not", prog(4, base + [c1, c2, con("Not", "t1", constraint=R("c1")), con("And", "t2", list_of_constraints=[R("t1"), R("c2")])])))
    # one constraint object used by two connectives: each use means the constraint alone, whatever else stood next to
    # it in the other connective
    c3 = con("TaskEndAt", "c3", task=R("b"), value=3)
    cond = E(["==", ["start", "b"], 0])
    for first in ("c1", "c2"):
        second = "c2" if first == "c1" else "c1"
        out.append(("ref:shared/Implies+Or", prog(4, base + [c1, c2, c3, con("Implies", "t1", condition=cond, list_of_constraints=[R(first), R(second)]),
                                                              con("Or", "t2", list_of_constraints=[R(first), R("c3")])])))
        out.append(("ref:shared/And+Xor", prog(4, base + [c1, c2, c3, con("Not", "t0", constraint={"$new": con("And", "t1", list_of_constraints=[R(first), R(second)])}),
                                                           con("Xor", "t2", constraint_1=R(first), constraint_2=R("c3"))])))
        out.append(("ref:shared/IfThenElse+Or", prog(4, base + [c1, c2, c3, con("IfThenElse", "t1", condition=cond, then_list_of_constraints=[R(first), R(second)],
                                                                                 else_list_of_constraints=[R("c3")]),
                                                                 con("Or", "t2", list_of_constraints=[R(first), R("c3")])])))
        out.append(("ref:shared/Or+Or", prog(4, base + [c1, c2, c3, con("Or", "t1", list_of_constraints=[R(first), R(second)]),
                                                         con("Or", "t2", list_of_constraints=[R("c3"), R(first)])])))
    return out


def jobs(tier):
    out = []
    fs = formulas(tier)
    for i, (lab, f) in enumerate(fs):
        for sk in ((0,) if tier == "quick" and i % 5 else (0, 1, 2)):
            out.append({"program": prog(4, scene(sk) + [top(f)]), "families": FAM, "family": lab.split("(")[0] if lab.startswith("d3") else lab,
                        "directions": "SK"})
    for (lab, p) in optional_constraint_programs(tier) + referenced_operand_programs() + multi_assertion_operand_programs():
        out.append({"program": p, "families": ["task", "resource", "constraint"], "family": lab, "directions": "SK"})
    return out


def k_jobs(tier):
    return [j for j in jobs(tier) if j["family"].startswith(("optional:", "force-apply", "ref:"))]


def main(tier):
    js = jobs(common.level("C10", tier))
    if common.level("C10", tier) == "deep":
        js = common.widen(js, by=(1, 2))
    return common.run_space_check("C10", tier, js, RULE, ASSUME, budget_s=480 if tier == "quick" else 3000)
