"""C18 - ill-formed model elements are rejected at creation, well-formed ones accepted (E5 constructor grid)."""
import itertools
import json

from psmc import boot, dsl, run, analysis
from psmc.dsl import fixed, var, zero, worker, select, cumul, req, con, prog, R, E, new, const_fn, lin_fn, poly_fn
from . import common

RULE = ("for every public constructor and add_required_resource: the product of a boundary-value grid of its parameters (ints -1,0,1,2,"
        "n,n+1; None; lists of 0-3 elements; duplicate names per registry; mandatory vs optional operands; assigned vs unassigned "
        "resources; plain vs cumulative resources; with and without an active problem), each tuple in a fresh problem built through "
        "the public API; reference predicate transcribed from the property statement: must-reject (the listed ill-formed cases), "
        "must-accept (documented legal values incl. every legal boundary; accepted = object returned AND the problem still "
        "initialises), everything else UNSPEC and only counted; every rejected single-element case is followed, in the same problem, by its "
        "well-formed variant under the same name (a rejected attempt leaves nothing behind); every program of the alphabets of "
        "C01-C04, C06-C11 and C19 - well-formed by construction - must build and initialise; non-trivial = tuples with a "
        "reject/accept expectation")
ASSUME = ["the must-reject / must-accept predicate is the list in the property statement plus the field documentation",
          "'no problem exists' is produced by clearing the module-level active problem"]

CTX = [fixed("a", 1), fixed("o", 1, optional=True), worker("w"), worker("u"), worker("v"), req("a", "w"), req("o", "w"), req("a", "v")]


def cases(tier):
    """(label, context decls, decl under test (or list), expectation, note)"""
    out = []
    A, Rj, U = "accept", "reject", "unspec"

    def add(label, test, exp, ctx=CTX, no_problem=False):
        out.append({"label": label, "ctx": ctx, "test": test if isinstance(test, list) else [test], "exp": exp, "no_problem": no_problem})

    # ---- tasks
    for d in (-1, 0, 1, 2, 5):
        add("FixedDurationTask.duration", new("FixedDurationTask", "t", name="t", duration=d), Rj if d <= 0 else A)
    for wa in (-2, -1, 0, 1, 3):
        for mk in ("fixed", "var", "zero"):
            t = {"fixed": new("FixedDurationTask", "t", name="t", duration=1, work_amount=wa), "var": new("VariableDurationTask", "t", name="t", work_amount=wa),
                 "zero": new("ZeroDurationTask", "t", name="t", work_amount=wa)}[mk]
            add("Task.work_amount", t, Rj if wa < 0 else A)
    for pr in (-1, 0, 1, 4):
        for mk in ("fixed", "var", "zero"):
            t = {"fixed": new("FixedDurationTask", "t", name="t", duration=2, priority=pr), "var": new("VariableDurationTask", "t", name="t", priority=pr),
                 "zero": new("ZeroDurationTask", "t", name="t", priority=pr)}[mk]
            add("Task.priority", t, Rj if pr < 0 else A)
    for mn in (-1, 0, 1, 3):
        add("VariableDurationTask.min_duration", new("VariableDurationTask", "t", name="t", min_duration=mn), Rj if mn < 0 else A)
    for mx in (None, -1, 0, 1, 3):
        add("VariableDurationTask.max_duration", new("VariableDurationTask", "t", name="t", max_duration=mx), A if mx is None or mx >= 1 else U)
    for al in (None, [1], [1, 3], [2, 2], [0], []):
        add("VariableDurationTask.allowed_durations", new("VariableDurationTask", "t", name="t", allowed_durations=al), A if al in (None, [1], [1, 3]) else U)
    for rel, due in itertools.product((None, 0, 2), (None, 0, 3)):
        for dl in (True, False):
            add("Task.dates", new("FixedDurationTask", "t", name="t", duration=1, release_date=rel, due_date=due, due_date_is_deadline=dl), A)
    for opt in (True, False):
        add("Task.optional", new("ZeroDurationTask", "t", name="t", optional=opt), A)
        add("Task.optional", new("VariableDurationTask", "t", name="t", optional=opt, min_duration=1, max_duration=2), A)
    # duplicate names, same registry / other registry
    for cls2, kw in (("FixedDurationTask", {"duration": 1}), ("VariableDurationTask", {}), ("ZeroDurationTask", {})):
        add("duplicate-task-name", new(cls2, "t", name="a", **kw), Rj)
        add("task-named-like-a-worker", new(cls2, "t", name="w", **kw), A)
    add("duplicate-worker-name", new("Worker", "x", name="w"), Rj)
    add("worker-named-like-a-task", new("Worker", "x", name="a"), A)
    add("duplicate-cumulative-name", [cumul("c1", 2, name="cc"), cumul("c2", 3, name="cc")], Rj)
    add("duplicate-select-name", [select("s1", ["w", "u"], name="ss"), select("s2", ["w", "v"], name="ss")], Rj)
    add("duplicate-constraint-name", [con("TaskStartAt", "c1", task=R("a"), value=0, name="k"), con("TaskEndAt", "c2", task=R("a"), value=1, name="k")], Rj)
    add("two-constraints-different-names", [con("TaskStartAt", "c1", task=R("a"), value=0, name="k"), con("TaskEndAt", "c2", task=R("a"), value=1, name="k2")], A)
    add("duplicate-buffer-name", [new("NonConcurrentBuffer", "b1", name="bb", initial_level=1), new("NonConcurrentBuffer", "b2", name="bb", initial_level=2)], Rj)
    add("duplicate-buffer-name-across-classes", [new("NonConcurrentBuffer", "b1", name="bb", initial_level=1), new("ConcurrentBuffer", "b2", name="bb", initial_level=2)], Rj)
    add("duplicate-indicator-name", [new("IndicatorFromMathExpression", "i1", name="ii", expression=E(["start", "a"])),
                                     new("IndicatorFromMathExpression", "i2", name="ii", expression=E(["end", "a"]))], Rj)
    add("duplicate-objective", [new("ObjectiveMinimizeMakespan", "o1"), new("ObjectiveMinimizeMakespan", "o2")], Rj)
    # ---- resources
    for p in (-1, 0, 1, 3):
        add("Worker.productivity", new("Worker", "x", name="x", productivity=p), Rj if p < 0 else A)
    for f in (const_fn(0), const_fn(3), lin_fn(1, 2), poly_fn([1, 0, 2])):
        add("Worker.cost", new("Worker", "x", name="x", cost=f), A)
    for size in (-1, 0, 1, 2, 3):
        add("CumulativeWorker.size", cumul("c", size), Rj if size < 2 else A)
    for p in (0, 1, 2, 5):
        add("CumulativeWorker.productivity", cumul("c", 2, productivity=p), A if p >= 1 else U)
    pool = ["w", "u", "v"]
    for n_list in (0, 1, 2, 3):
        for n in (0, 1, 2, 3, 4):
            for kind in ("exact", "min", "max"):
                exp = Rj if (n_list < 2 or n > n_list) else (A if n >= 1 else U)
                add("SelectWorkers", new("SelectWorkers", "s", name="s", list_of_workers=[R(x) for x in pool[:n_list]], nb_workers_to_select=n, kind=kind), exp)
    add("SelectWorkers.with-cumulative", [cumul("c", 3), new("SelectWorkers", "s", name="s", list_of_workers=[R("c"), R("w")], nb_workers_to_select=3)], Rj)
    add("SelectWorkers.with-cumulative", [cumul("c", 3), new("SelectWorkers", "s", name="s", list_of_workers=[R("c"), R("w")], nb_workers_to_select=2)], A)
    # ---- rules on optional tasks: mandatory operand rejected, optional accepted
    for tid, exp in (("a", Rj), ("o", A)):
        add("OptionalTaskForceSchedule", con("OptionalTaskForceSchedule", "c", task=R(tid), to_be_scheduled=True), exp)
        add("OptionalTaskForceSchedule", con("OptionalTaskForceSchedule", "c", task=R(tid), to_be_scheduled=False), exp)
        add("OptionalTaskConditionSchedule", con("OptionalTaskConditionSchedule", "c", task=R(tid), condition=E([">", ["start", "a"], 0])), exp)
        add("OptionalTasksDependency.task_2", con("OptionalTasksDependency", "c", task_1=R("a"), task_2=R(tid)), exp)
        add("ForceScheduleNOptionalTasks", con("ForceScheduleNOptionalTasks", "c", list_of_optional_tasks=[R("o"), R(tid)] if tid == "a" else [R("o")], nb_tasks_to_schedule=1), exp)
    add("ForceScheduleNOptionalTasks", [fixed("o2", 1, optional=True), con("ForceScheduleNOptionalTasks", "c", list_of_optional_tasks=[R("o"), R("o2")], nb_tasks_to_schedule=2, kind="max")], A)
    for optc, exp in ((False, Rj), (True, A)):
        add("ForceApplyNOptionalConstraints", [con("TaskStartAt", "k1", task=R("a"), value=0, optional=optc),
                                               con("ForceApplyNOptionalConstraints", "f", list_of_optional_constraints=[R("k1")], nb_constraints_to_apply=1)], exp)
        add("ForceApplyNOptionalConstraints", [con("TaskStartAt", "k1", task=R("a"), value=0, optional=True), con("TaskEndAt", "k2", task=R("a"), value=1, optional=optc),
                                               con("ForceApplyNOptionalConstraints", "f", list_of_optional_constraints=[R("k1"), R("k2")], nb_constraints_to_apply=1, kind="max")], exp)
    # ---- resource constraints: unassigned resource rejected, assigned accepted (plain, through a selection, cumulative)
    rc = {
        "WorkLoad": lambda r: con("WorkLoad", "c", resource=R(r), dict_time_intervals_and_bound={"$tupkeys": [[[0, 2], 1]]}),
        "ResourceUnavailable": lambda r: con("ResourceUnavailable", "c", resource=R(r), list_of_time_intervals=[(0, 1)]),
        "ResourcePeriodicallyUnavailable": lambda r: con("ResourcePeriodicallyUnavailable", "c", resource=R(r), list_of_time_intervals=[(0, 1)], period=3),
        "ResourceInterrupted": lambda r: con("ResourceInterrupted", "c", resource=R(r), list_of_time_intervals=[(1, 2)]),
        "ResourcePeriodicallyInterrupted": lambda r: con("ResourcePeriodicallyInterrupted", "c", resource=R(r), list_of_time_intervals=[(0, 1)], period=3),
        "ResourceTasksDistance": lambda r: con("ResourceTasksDistance", "c", resource=R(r), distance=1, mode="min"),
        "ResourceNonDelay": lambda r: con("ResourceNonDelay", "c", resource=R(r)),
    }
    # the same with nothing to forbid: an empty interval list does not make an unassigned resource acceptable
    rc_empty = {
        "WorkLoad": lambda r: con("WorkLoad", "c", resource=R(r), dict_time_intervals_and_bound={"$tupkeys": []}),
        "ResourceUnavailable": lambda r: con("ResourceUnavailable", "c", resource=R(r), list_of_time_intervals=[]),
        "ResourcePeriodicallyUnavailable": lambda r: con("ResourcePeriodicallyUnavailable", "c", resource=R(r), list_of_time_intervals=[], period=3),
        "ResourceInterrupted": lambda r: con("ResourceInterrupted", "c", resource=R(r), list_of_time_intervals=[]),
        "ResourcePeriodicallyInterrupted": lambda r: con("ResourcePeriodicallyInterrupted", "c", resource=R(r), list_of_time_intervals=[], period=3),
    }
    for name, mk in rc_empty.items():
        # (a workload without intervals, and an empty unavailability on an assigned resource, say nothing: unspecified)
        add(name + "/unassigned-empty-list", mk("u"), U if name == "WorkLoad" else Rj)
        add(name + "/assigned-empty-list", mk("w"), A if "Interrupted" in name else U)
    ctx_c = CTX + [cumul("cu", 2), cumul("cn", 2), req("a", "cu"), req("o", "cu"), select("s", ["u", "v"]), fixed("b", 2), req("b", "s")]
    for name, mk in rc.items():
        add(name + "/unassigned", mk("u"), Rj)
        add(name + "/assigned", mk("w"), A)
        if name not in ("ResourceTasksDistance", "ResourceNonDelay"):
            add(name + "/cumulative-assigned", mk("cu"), A, ctx=ctx_c)
            add(name + "/cumulative-unassigned", mk("cn"), Rj, ctx=ctx_c)
            add(name + "/assigned-through-selection", mk("u"), A, ctx=ctx_c)
    # resources whose only task is zero-duration / optional / dynamically assigned are assigned resources too
    ctx_x = CTX + [zero("z"), worker("wz"), req("z", "wz"), fixed("oo", 2, optional=True), worker("wo"), req("oo", "wo"),
                   fixed("dd", 2), worker("wd"), req("dd", "wd", dynamic=True), var("vv", max_duration=2), worker("wv"), req("vv", "wv", delay_in=1)]
    for name, mk in rc.items():
        if name in ("ResourceTasksDistance",):
            continue
        for r_ in ("wz", "wo", "wd", "wv"):
            add(name + "/assigned-only-to-" + {"wz": "zero-duration-task", "wo": "optional-task", "wd": "dynamic-requirement", "wv": "delayed-requirement"}[r_],
                mk(r_), A, ctx=ctx_x)
    # a mandatory constraint stays mandatory after it was used as an operand of a connective
    for wrap in ("Not", "Or", "Implies"):
        k1 = con("TaskStartAt", "k1", task=R("a"), value=0)
        ko = con("TaskEndAt", "ko", task=R("a"), value=1, optional=True)
        w_ = {"Not": con("Not", "wr", constraint=R("k1")), "Or": con("Or", "wr", list_of_constraints=[R("k1"), E(["==", ["start", "a"], 2])]),
              "Implies": con("Implies", "wr", condition=E(["==", ["start", "a"], 0]), list_of_constraints=[R("k1")])}[wrap]
        add("ForceApplyNOptionalConstraints/mandatory-operand-of-" + wrap, [k1, ko, w_,
            con("ForceApplyNOptionalConstraints", "f", list_of_optional_constraints=[R("ko"), R("k1")], nb_constraints_to_apply=1)], Rj)
        add("ForceApplyNOptionalConstraints/optional-operand-of-" + wrap, [dict(k1, args=dict(k1["args"], optional=True)), ko, w_,
            con("ForceApplyNOptionalConstraints", "f", list_of_optional_constraints=[R("ko"), R("k1")], nb_constraints_to_apply=1)], A)
    for s1, s2 in (("s1", "s2"),):
        ctx_s = CTX + [select("s1", ["w", "u"]), select("s2", ["u", "v"]), fixed("b", 1), fixed("c", 1), req("b", "s1"), req("c", "s2")]
        add("SameWorkers", con("SameWorkers", "k", select_workers_1=R("s1"), select_workers_2=R("s2")), A, ctx=ctx_s)
        add("DistinctWorkers", con("DistinctWorkers", "k", select_workers_1=R("s1"), select_workers_2=R("s2")), A, ctx=ctx_s)
    # ---- buffers
    for cls in ("NonConcurrentBuffer", "ConcurrentBuffer"):
        for i, f in itertools.product((None, 0, 3), (None, 0, 2)):
            kw = {}
            if i is not None:
                kw["initial_level"] = i
            if f is not None:
                kw["final_level"] = f
            add(cls + ".levels", new(cls, "b", name="b", **kw), Rj if (i is None and f is None) else A)
        add(cls + ".bounds", new(cls, "b", name="b", initial_level=1, lower_bound=0, upper_bound=3), A)
        add(cls + ".load", [new(cls, "b", name="b", initial_level=1), con("TaskLoadBuffer", "l", task=R("a"), buffer=R("b"), quantity=1),
                            con("TaskUnloadBuffer", "ul", task=R("o"), buffer=R("b"), quantity=1)], A)
    # ---- well-formed task / first-order / indicator elements are accepted
    ok = [con("TaskStartAt", "c", task=R("a"), value=0), con("TaskStartAfter", "c", task=R("a"), value=1, kind="strict"), con("TaskEndAt", "c", task=R("o"), value=2),
          con("TaskEndBefore", "c", task=R("a"), value=3, kind="lax"), con("TaskPrecedence", "c", task_before=R("a"), task_after=R("o"), offset=0, kind="tight"),
          con("TaskPrecedence", "c", task_before=R("a"), task_after=R("o"), offset=2, kind="strict"), con("TasksStartSynced", "c", task_1=R("a"), task_2=R("o")),
          con("TasksEndSynced", "c", task_1=R("a"), task_2=R("o")), con("TasksDontOverlap", "c", task_1=R("a"), task_2=R("o")),
          con("TasksContiguous", "c", list_of_tasks=[R("a"), R("o")]), con("UnorderedTaskGroup", "c", list_of_tasks=[R("a"), R("o")]),
          con("UnorderedTaskGroup", "c", list_of_tasks=[R("a"), R("o")], time_interval=(0, 3)), con("OrderedTaskGroup", "c", list_of_tasks=[R("a"), R("o")], kind="strict", time_interval_length=3),
          con("ScheduleNTasksInTimeIntervals", "c", list_of_tasks=[R("a"), R("o")], nb_tasks_to_schedule=1, list_of_time_intervals=[(0, 2), (2, 4)], kind="min"),
          con("ScheduleNTasksInTimeIntervals", "c", list_of_tasks=[R("a")], nb_tasks_to_schedule=0, list_of_time_intervals=[(0, 2)], kind="exact"),
          con("ConstraintFromExpression", "c", expression=E([">=", ["start", "a"], 1])),
          con("Not", "c", constraint={"$new": con("TaskStartAt", "n1", task=R("a"), value=0)}),
          con("Xor", "c", constraint_1={"$new": con("TaskStartAt", "n1", task=R("a"), value=0)}, constraint_2=E(["==", ["start", "o"], 1])),
          con("Implies", "c", condition=E(["==", ["start", "a"], 0]), list_of_constraints=[{"$new": con("TaskStartAt", "n1", task=R("o"), value=1)}]),
          con("IfThenElse", "c", condition=True, then_list_of_constraints=[E(["==", ["start", "a"], 0])], else_list_of_constraints=[E(["==", ["start", "a"], 1])])]
    # every documented kind / mode literal of every class
    for k in ("exact", "min", "max"):
        ok.append(con("WorkLoad", "c", resource=R("w"), kind=k, dict_time_intervals_and_bound={"$tupkeys": [[[0, 2], 1], [[2, 4], 1]]}))
        ok.append(con("ResourceTasksDistance", "c", resource=R("w"), distance=1, mode=k))
        ok.append(con("ResourceTasksDistance", "c", resource=R("w"), distance=0, mode=k, list_of_time_intervals=[(0, 2), (2, 4)]))
        ok.append(con("ScheduleNTasksInTimeIntervals", "c", list_of_tasks=[R("a"), R("o")], nb_tasks_to_schedule=1, list_of_time_intervals=[(0, 2), (1, 3)], kind=k))
        ok.append(con("ForceScheduleNOptionalTasks", "c", list_of_optional_tasks=[R("o")], nb_tasks_to_schedule=1, kind=k))
    for k in ("lax", "strict", "tight"):
        ok.append(con("TaskPrecedence", "c", task_before=R("a"), task_after=R("o"), kind=k, offset=1))
        ok.append(con("OrderedTaskGroup", "c", list_of_tasks=[R("a"), R("o")], kind=k, time_interval=(0, 4)))
    for k in ("lax", "strict"):
        ok.append(con("TaskStartAfter", "c", task=R("o"), value=0, kind=k))
        ok.append(con("TaskEndBefore", "c", task=R("o"), value=4, kind=k))
    for c in ok:
        add("well-formed:" + c["cls"], c, A)
    inds = [new("IndicatorResourceUtilization", "i", resource=R("w")), new("IndicatorNumberTasksAssigned", "i", resource=R("w")), new("IndicatorResourceIdle", "i", resource=R("w")),
            new("IndicatorResourceCost", "i", list_of_resources=[R("w"), R("v")]), new("IndicatorFromMathExpression", "i", name="i", expression=E(["end", "a"]), bounds=(0, 5)),
            new("ObjectiveMinimizeMakespan", "i"), new("ObjectiveMinimizeFlowtime", "i"), new("ObjectivePriorities", "i"), new("ObjectiveTasksStartLatest", "i"),
            new("ObjectiveTasksStartEarliest", "i"), new("ObjectiveMinimizeGreatestStartTime", "i"), new("ObjectiveMaximizeResourceUtilization", "i", resource=R("w")),
            new("ObjectiveMinimizeResourceCost", "i", list_of_resources=[R("w")])]
    inds += [new("ObjectiveMinimizeFlowtimeSingleResource", "i", resource=R("w")), new("ObjectiveMinimizeFlowtimeSingleResource", "i", resource=R("w"), time_interval=(0, 3)),
             new("ObjectiveMinimizeFlowtime", "i", list_of_tasks=[R("a")]), new("ObjectiveTasksStartLatest", "i", list_of_tasks=[R("a"), R("o")]),
             new("ObjectiveMinimizeGreatestStartTime", "i", list_of_tasks=[R("a")]), new("IndicatorTardiness", "i", list_of_tasks=[R("dd1")]),
             new("IndicatorEarliness", "i", list_of_tasks=[R("dd1")]), new("IndicatorNumberOfTardyTasks", "i", list_of_tasks=[R("dd1")]),
             new("IndicatorMaximumLateness", "i", list_of_tasks=[R("dd1")])]
    ctx_i = CTX + [fixed("dd1", 1, due_date=3, due_date_is_deadline=False)]
    for i_ in inds:
        add("well-formed:" + i_["cls"], i_, A, ctx=ctx_i)
    for bcls in ("NonConcurrentBuffer", "ConcurrentBuffer"):
        for icls in ("IndicatorMaxBufferLevel", "IndicatorMinBufferLevel", "ObjectiveMaximizeMaxBufferLevel", "ObjectiveMinimizeMaxBufferLevel"):
            add("well-formed:" + icls, [new(bcls, "bf", name="bf", initial_level=1), con("TaskLoadBuffer", "l", task=R("a"), buffer=R("bf"), quantity=1),
                                         new(icls, "i", buffer=R("bf"))], A)
    add("well-formed:IndicatorTarget", [new("IndicatorResourceIdle", "i", resource=R("w")), con("IndicatorTarget", "c", indicator=R("i"), value=0)], A)
    add("well-formed:IndicatorBounds", [new("IndicatorResourceIdle", "i", resource=R("w")), con("IndicatorBounds", "c", indicator=R("i"), upper_bound=2)], A)
    # ---- requirements
    add("add_required_resource", [fixed("b", 2), req("b", "u", delay_in=1), req("b", "v", dynamic=True)], A)
    add("add_required_resources", [fixed("b", 2), {"k": "reqs", "task": "b", "res": ["u", "v"]}], A)
    add("add_required_resource/cumulative", [fixed("b", 2), cumul("c", 2), req("b", "c")], A)
    # ---- nothing can be created before a problem exists
    for d in (new("FixedDurationTask", "t", name="t", duration=1), new("ZeroDurationTask", "t", name="t"), new("VariableDurationTask", "t", name="t"),
              new("Worker", "x", name="x"), new("CumulativeWorker", "x", name="x", size=2), new("NonConcurrentBuffer", "b", name="b", initial_level=0),
              new("ConcurrentBuffer", "b", name="b", initial_level=0)):
        add("no-active-problem:" + d["cls"], d, Rj, ctx=[], no_problem=True)
    # ---- a rejected attempt leaves nothing behind: the well-formed variant of the same element (same name, same
    # context) must still be accepted right after the failed creation
    paired = []
    for c in out:
        if c["exp"] != Rj or c["no_problem"] or len(c["test"]) != 1:
            continue
        fix = next((a for a in out if a["exp"] == A and a["label"].split("/")[0] == c["label"].split("/")[0] and a["ctx"] is c["ctx"] and len(a["test"]) == 1
                    and a["test"][0].get("id") == c["test"][0].get("id")), None)
        if fix is not None:
            paired.append({"label": c["label"].split("/")[0] + "/after-rejected-attempt", "ctx": c["ctx"], "pre_rejected": c["test"], "test": fix["test"],
                           "exp": A, "no_problem": False})
    return out + paired


def job(c):
    import processscheduler as ps
    import processscheduler.base as base

    res = {"label": c["label"], "exp": c["exp"], "ok": True, "idx": c.get("idx")}
    try:
        pre = []
        if c.get("pre_rejected"):
            rej = [l for l in dsl.gen_source(prog(4, c["pre_rejected"]), header=False).splitlines() if not l.startswith("pb = ")]
            pre = [{"k": "raw", "src": "try:\n" + "\n".join("    " + l for l in rej) + "\nexcept Exception:\n    pass"}]
        program = prog(4, c["ctx"] + pre + c["test"])
        if c["no_problem"]:
            # build the context (none) without a problem: clear the module-level active problem
            boot.boot()
            base.active_problem = None
            src = dsl.gen_source(program, header=False)
            lines = [l for l in src.splitlines() if not l.startswith("pb = ")]
            ns = {"ps": ps, "z3": __import__("z3"), "datetime": __import__("datetime")}
            try:
                exec("\n".join(lines), ns)
                res["outcome"] = "accept"
            except Exception as e:
                res["outcome"] = "reject"
                res["exc"] = type(e).__name__
            return res
        # the context alone must build (otherwise the case is ill-posed)
        try:
            dsl.build(prog(4, c["ctx"]))
        except Exception as e:
            # the context is well-formed by construction: a constructor that refuses it violates "well-formed accepted"
            res["outcome"] = "reject"
            res["exp"] = "accept"
            res["label"] = "context-of:" + c["label"].split("/")[0].split(":")[0]
            res["exc"] = type(e).__name__
            res["msg"] = f"the well-formed context does not build: {e}"[:120]
            res["src"] = dsl.gen_source(prog(4, c["ctx"]), header=False).splitlines()[-3:]
            res["context_failed"] = True
            return res
        try:
            built = dsl.build(program)
        except Exception as e:
            res["outcome"] = "reject"
            res["exc"] = type(e).__name__
            res["msg"] = str(e)[:100]
            return res
        try:
            analysis.make_solver(built, {})
            res["outcome"] = "accept"
        except Exception as e:
            res["outcome"] = "accepted-but-does-not-initialise"
            res["exc"] = type(e).__name__
            res["msg"] = str(e)[:100]
        res["src"] = built.src.splitlines()[-len(c["test"]):]
    except Exception as e:
        res["ok"] = False
        res["error"] = f"{type(e).__name__}: {e}"[:200]
    return res


def accept_job(j):
    """A well-formed program of another check's alphabet must build and initialise."""
    program = j["program"]
    res = {"ok": True, "outcome": "accept", "family": j.get("family", "")}
    try:
        built = dsl.build(program)
        analysis.make_solver(built, {})
    except Exception as e:
        res["outcome"] = "reject"
        res["exc"] = type(e).__name__
        res["msg"] = str(e)[:120]
        last = [d for d in program["decls"] if d["k"] == "new"][-1]
        res["cls"] = last["cls"]
        res["program"] = program
    return res


def alphabet_programs(tier):
    from . import C01, C02, C03, C04, C06, C07, C08, C09, C10, C11, C19

    seen, out = set(), []
    stride = {"C01": 5, "C06": 3, "C11": 2, "C19": 4}
    for mod, name in ((C02, "C02"), (C03, "C03"), (C04, "C04"), (C09, "C09"), (C10, "C10"), (C01, "C01"), (C06, "C06"), (C08, "C08"), (C11, "C11"),
                      (C19, "C19")):
        for j in mod.jobs(common.level(name, tier))[:: (stride.get(name, 3) if tier == "quick" else 1)]:
            k = dsl.pkey(j["program"])
            if k not in seen:
                seen.add(k)
                out.append({"program": j["program"], "family": name + ":" + j.get("family", "")})
    for (lab, p_) in C07.programs(tier):
        k = dsl.pkey(p_)
        if k not in seen:
            seen.add(k)
            out.append({"program": p_, "family": "C07:" + lab})
    return out


def replay(inst):
    if inst.get("expect") == "accept-program":
        r = accept_job({"program": inst["program"]})
        bad = r["outcome"] != "accept"
        print(json.dumps({"violation": f"well-formed program rejected: {r.get('exc')}: {r.get('msg')}" if bad else None}))
        return 1 if bad else 0
    r = job(inst["case"])
    bad = r.get("outcome") != inst["case"]["exp"] and inst["case"]["exp"] != "unspec"
    print(json.dumps({"violation": f"expected {inst['case']['exp']}, got {r.get('outcome')}" if bad else None, "exc": r.get("exc")}))
    return 1 if bad else 0


def confirm(inst):
    import subprocess
    import sys
    import os

    if inst.get("expect") == "accept-program":
        inst["standalone"] = ('"""Stand-alone replay generated by /verif: this well-formed problem must be accepted (it raised ' + str(inst.get("exc")) + ').\n"""\n'
                              + dsl.gen_source(inst["program"]) + "ps.SchedulingSolver(problem=pb).initialize()\n")
        c = None
    else:
        c = inst["case"]
        inst["standalone"] = None
    if c is not None:
      inst["standalone"] = ('"""Stand-alone replay generated by /verif: this element must be ' + c["exp"] + 'ed at creation.\n"""\n'
                          + ("import processscheduler as ps\nimport z3\n" + "\n".join(l for l in dsl.gen_source(prog(4, c["ctx"] + c["test"]), header=False).splitlines() if not l.startswith("pb = "))
                             if c["no_problem"] else dsl.gen_source(prog(4, c["ctx"] + c["test"]))) + "\n")
    outs = []
    for _ in range(2):
        p = subprocess.run([sys.executable, "-m", "props.hist_replay", "C18"], input=json.dumps(inst, default=list), capture_output=True,
                           text=True, cwd=run.VERIF, env=dict(os.environ, PYTHONHASHSEED="0"), timeout=120)
        if p.returncode not in (0, 1):
            return False, {"error": p.stderr[-600:]}
        outs.append(p.stdout.strip().splitlines()[-1])
    if outs[0] != outs[1]:
        return False, {"error": "replay not deterministic", "obs": outs}
    o = json.loads(outs[0])
    return bool(o["violation"]), o


def witness(entry):
    import io
    import contextlib

    with contextlib.redirect_stdout(io.StringIO()):
        return replay(entry["witness"]) == 1


def main(tier):
    chk = run.Check("C18", tier, RULE)
    chk.assumptions = ASSUME
    cs = cases(tier)
    for i, c in enumerate(cs):
        c["idx"] = i
    by_idx = {c["idx"]: c for c in cs}
    cs = common.rotate(cs)
    n_exp = 0
    outcomes = set()
    for status, r in run.pmap(job, cs, chunk=8):
        c = r if status == "ok" else None
        if status == "err" or not r["ok"]:
            chk.error(r)
            continue
        chk.add(programs=1, states=1, transitions=1, evaluations=1, traces_validated_against_impl=1)
        chk.family(r["label"].split("/")[0].split(":")[0], tuples=1, unspec=1 if r["exp"] == "unspec" else 0)
        outcomes.add((r["label"], r["outcome"]))
        if r["exp"] != "unspec":
            n_exp += 1
            if r["outcome"] != r["exp"]:
                case = by_idx[r["idx"]]
                if r.get("context_failed"):
                    case = dict(case, test=[], exp="accept", label=r["label"])
                sig = {"dir": "validation", "element": r["label"], "expected": r["exp"], "got": r["outcome"]}
                if case.get("pre_rejected"):
                    sig["why"] = "name-still-registered" if "already exists" in (r.get("msg") or "") else (r.get("exc") or "other")
                chk.violation(sig, {"case": case, "observed": r, "expect": "validation"})
        if len(chk.samples) < 6 and r.get("src"):
            chk.sample({"element": r["label"], "under_test": r["src"], "expected": r["exp"], "observed": r["outcome"]})
    # every program of the schedule-space alphabets is well-formed by construction: it must be accepted as well
    n_alpha = 0
    for status, r in run.pmap(accept_job, alphabet_programs(tier), chunk=16):
        if status == "err":
            chk.error(r)
            continue
        n_alpha += 1
        chk.add(programs=1, states=1, transitions=1, evaluations=1, traces_validated_against_impl=1)
        if r["outcome"] != "accept":
            chk.violation({"dir": "validation", "element": r["cls"], "expected": "accept", "got": "reject", "exc": r["exc"]},
                          {"program": r["program"], "expect": "accept-program", "exc": r["exc"], "msg": r["msg"]})
    chk.cov["alphabet_programs_accepted"] = n_alpha
    n_exp += n_alpha
    chk.cov["distinct_nontrivial"] = n_exp
    chk.cov["distinct_outcomes"] = len(outcomes)
    return chk.finish(confirm=confirm, witness_runner=witness)
