"""C17 - the Gantt chart draws exactly the reported assignments at the right place (E4 renderer inspection, Agg backend)."""
import json
import math

from psmc import boot, dsl, run, analysis, ref
from psmc.dsl import fixed, var, zero, worker, select, cumul, req, con, prog, R, E, new
from . import common, C11

RULE = ("every distinct reported solution of every admitted leaf of a corpus (1-3 tasks, 0-3 resources incl. cumulative workers, delayed / "
        "dynamic assignments, optional and zero-duration tasks, buffers, with and without calendar times, with and without "
        "resources) is rendered with render_gantt_matplotlib(show_plot=False) in both render modes under the Agg backend and the "
        "artists are inspected: one bar per reported assignment on the row of its resource spanning start..end with the task name "
        "centred (resource view); one bar per scheduled task spanning start..end and none for unscheduled tasks (task view); a "
        "0.1-wide marker centred on the instant for zero-length items; buffer lines equal to the reported step function from 0 "
        "to the horizon; tick labels = row names; non-trivial = distinct (solution, mode) figures inspected")
ASSUME = ["matplotlib artist geometry (PolyCollection paths, Text positions, Line2D data) is what is drawn", "the solution object is the reference (its fidelity is C11)"]
FAM = ["task", "resource", "constraint", "buffer"]
EPS = 1e-6


def bars_of(ax):
    out = []
    for coll in ax.collections:
        for path in coll.get_paths():
            v = path.vertices
            out.append((float(v[:, 0].min()), float(v[:, 0].max()), float(v[:, 1].min()), float(v[:, 1].max())))
    return sorted(out)


def texts_of(ax):
    return sorted((round(t.get_position()[0], 6), round(t.get_position()[1], 6), t.get_text()) for t in ax.texts)


def close(a, b):
    return abs(a - b) < 1e-6


def same_bars(got, want):
    if len(got) != len(want):
        return False
    for g, w in zip(sorted(got), sorted(want)):
        if not all(close(x, y) for x, y in zip(g, w)):
            return False
    return True


def bar_for(start, length, row):
    if length == 0:
        return (start - 0.05, start + 0.05, 2 * row, 2 * row + 2)
    return (start, start + length, 2 * row, 2 * row + 2)


def gantt_check(program, built, solver, prims, leaves, job):
    import matplotlib

    matplotlib.use("Agg")
    import matplotlib.pyplot as plt
    import processscheduler as ps

    out = []
    seen = set()

    def bad(what, leaf, mode, **kw):
        out.append(({"dir": "gantt", "what": what, "mode": mode}, {"program": program, "leaf": analysis._leaf_list(leaf), "expect": "gantt", "solver": {}, "what": what,
                                                                   "mode": mode, "detail": {k: repr(v)[:300] for k, v in kw.items()}}))

    for leaf in leaves:
        sol = analysis.solve_under_pins(solver, prims, leaf)
        if isinstance(sol, analysis.Raised):
            out.append(analysis.raised_violation(program, leaf, sol))
            continue
        if not sol:
            continue
        key = repr(sorted((n, t.start, t.end, t.scheduled, tuple(t.assigned_resources)) for n, t in sol.tasks.items())) + repr(
            sorted((n, tuple(map(tuple, r.assignments))) for n, r in sol.resources.items()))
        if key in seen:
            continue
        seen.add(key)
        # an assignment shifted inwards by more than the task lasts (delay_in + early_out > duration) is reported with
        # its end before its start: what a bar of negative length looks like is not specified
        inverted = any(e_ < s_ for r in sol.resources.values() for (_tn, s_, e_) in r.assignments)
        for mode in ("Resource", "Task"):
            if inverted and mode == "Resource":
                job["_unspec"] = job.get("_unspec", 0) + 1
                continue
            plt.close("all")
            try:
                # rendered twice in a row, the figures of the first call left open as a caller would leave them: the
                # second chart is inspected (it must show this solution once, whatever was drawn before)
                ps.render_gantt_matplotlib(sol, show_plot=False, render_mode=mode)
                ps.render_gantt_matplotlib(sol, show_plot=False, render_mode=mode)
            except Exception as e:
                bad("raised", leaf, mode, exc=f"{type(e).__name__}: {e}")
                plt.close("all")
                continue
            fig = plt.gcf()
            axes = fig.axes
            if len(axes) != (2 if sol.buffers else 1):
                bad("chart-count", leaf, mode, got=len(axes), want=2 if sol.buffers else 1)
            ax = axes[0]
            eff = mode if sol.resources else "Task"
            if eff == "Resource":
                want_bars, want_texts, rows = [], [], list(sol.resources)
                for i, rn in enumerate(rows):
                    for (tn, s_, e_) in sol.resources[rn].assignments:
                        want_bars.append(bar_for(s_, e_ - s_, i))
                        want_texts.append((round(s_ + (e_ - s_) / 2, 6), round(2 * i + 1, 6), tn))
            else:
                sched = [n for n, t in sol.tasks.items() if t.scheduled]
                want_bars, want_texts, rows = [], [], sched
                for i, tn in enumerate(sched):
                    t = sol.tasks[tn]
                    want_bars.append(bar_for(t.start, t.end - t.start, i))
                    txt = ",".join(t.assigned_resources) if t.assigned_resources else r"($\emptyset$)"
                    want_texts.append((round(t.start + (t.end - t.start) / 2, 6), round(2 * i + 1, 6), txt))
            got_bars = bars_of(ax)
            if not same_bars(got_bars, want_bars):
                what = "bar-count" if len(got_bars) != len(want_bars) else "bar-geometry"
                bad(what, leaf, mode, got=got_bars, want=sorted(want_bars))
            got_texts = texts_of(ax)
            if sorted(got_texts) != sorted(want_texts):
                bad("bar-labels", leaf, mode, got=got_texts, want=sorted(want_texts))
            labels = [l.get_text() for l in ax.get_yticklabels()]
            if labels != rows:
                bad("row-labels", leaf, mode, got=labels, want=rows)
            ticks = [float(x) for x in ax.get_yticks()]
            if ticks != [float(2 * i + 1) for i in range(len(rows))]:
                bad("row-ticks", leaf, mode, got=ticks)
            if sol.buffers:
                if len(axes) < 2:
                    bad("buffer-axes-missing", leaf, mode)
                else:
                    bax = axes[1]
                    lines = {l.get_label(): l for l in bax.get_lines()}
                    for bn, b in sol.buffers.items():
                        l = lines.get(bn)
                        if l is None:
                            bad("buffer-line-missing", leaf, mode, buffer=bn)
                            continue
                        xs, ys = list(l.get_xdata()), list(l.get_ydata())
                        if any(v is None for v in xs + ys):
                            bad("buffer-steps", leaf, mode, got="a breakpoint of the curve is None", want="the reported step function")
                            continue
                        segs = []
                        k = 0
                        while k + 1 < len(xs):
                            if not (isinstance(xs[k], float) and math.isnan(xs[k])):
                                segs.append((float(xs[k]), float(xs[k + 1]), float(ys[k]), float(ys[k + 1])))
                                k += 3
                            else:
                                k += 1
                        allx = [0] + list(b.level_change_times) + [sol.horizon]
                        want = [(float(allx[i]), float(allx[i + 1]), float(y), float(y)) for i, y in enumerate(b.level)]
                        if segs != want:
                            bad("buffer-steps", leaf, mode, got=segs, want=want)
            plt.close("all")
    job["_distinct"] = 2 * len(seen)
    return out


analysis.POST["gantt"] = gantt_check


def jobs(tier):
    out = []
    items = C11.corpus(tier)
    cals = C11.calendars(tier)
    for i, (lab, decls, H) in enumerate(items):
        if tier == "quick" and i % 2:
            continue
        cal = cals[i % len(cals)] if i % 3 == 0 else {}
        out.append({"program": prog(H, decls, **cal), "families": FAM, "family": lab.split("/")[-1], "directions": "S", "post": "gantt"})
    extra = [
        ("no-resource+optional", [fixed("a", 1, optional=True), fixed("b", 2), zero("z")], 3),
        ("buffers", [fixed("a", 1), fixed("b", 1), new("NonConcurrentBuffer", "bf", name="bf", initial_level=2),
                     con("TaskUnloadBuffer", "u", task=R("a"), buffer=R("bf"), quantity=1), con("TaskLoadBuffer", "l", task=R("b"), buffer=R("bf"), quantity=2)], 3),
        ("buffers+worker", [fixed("a", 2), fixed("b", 1), worker("w"), req("a", "w"), req("b", "w"),
                            new("ConcurrentBuffer", "bf", name="bf", initial_level=3), new("NonConcurrentBuffer", "b2", name="b2", initial_level=0),
                            con("TaskUnloadBuffer", "u", task=R("a"), buffer=R("bf"), quantity=2), con("TaskUnloadBuffer", "u2", task=R("b"), buffer=R("bf"), quantity=1),
                            con("TaskLoadBuffer", "l", task=R("a"), buffer=R("b2"), quantity=1)], 3),
        ("interrupted", [fixed("a", 2), var("b", min_duration=1, max_duration=3), worker("w"), req("a", "w", early_out=1), req("b", "w"),
                         con("ResourceInterrupted", "c", resource=R("w"), list_of_time_intervals=[(1, 2)])], 4),
        ("three-resources", [fixed("a", 1), fixed("b", 2), fixed("c", 1, optional=True), worker("w"), worker("v"), cumul("k", 2),
                             req("a", "w"), req("a", "k"), req("b", "k"), req("b", "v"), req("c", "v")], 3),
        ("indicators", [fixed("a", 1), worker("w"), req("a", "w"), new("IndicatorResourceUtilization", "i", resource=R("w"))], 3),
        # a long time line: the marker of a zero-length item stays centred on its instant
        ("long-horizon+zero", [zero("z"), fixed("a", 2), worker("w"), req("z", "w"), req("a", "w")], 12),
    ]
    for lab, decls, H in extra:
        out.append({"program": prog(H, decls), "families": FAM, "family": lab, "directions": "S", "post": "gantt"})
        if lab == "buffers":
            # ... without a horizon given by the user (the chart ends at the reported horizon)
            out.append({"program": prog(None, decls, H=3), "families": FAM, "family": lab + "+free-horizon", "directions": "S", "post": "gantt"})
        if lab.startswith("buffers"):
            # ... and with calendar times (another branch of the renderer places the time labels)
            out.append({"program": prog(H, decls, **cals[1 if lab == "buffers" else -1]), "families": FAM, "family": lab + "+calendar", "directions": "S", "post": "gantt"})
    return out


def replay(inst):
    r = analysis.analyze({"program": inst["program"], "families": FAM, "directions": "S", "post": "gantt"})
    bad = [v for v in r.get("viol", []) if v["sig"].get("what") == inst["what"] and v["sig"].get("mode") == inst["mode"]]
    print(json.dumps({"violation": inst["what"] if bad else None, "detail": [v["instance"].get("detail") for v in bad][:1], "error": r.get("error")}))
    return 1 if bad else 0


def confirm(inst):
    import subprocess
    import sys
    import os
    from psmc import replay as rp

    inst["standalone"] = rp.standalone_source(inst["program"], [(tuple(k), v) for k, v in inst["leaf"]], None, {},
                                              note=f"{inst['what']} in {inst['mode']} view: {inst['detail']}") + \
        f"import matplotlib; matplotlib.use('Agg')\nps.render_gantt_matplotlib(solution, show_plot=False, render_mode={inst['mode']!r}, fig_filename='/tmp/verif_gantt.png')\n"
    outs = []
    for _ in range(2):
        p = subprocess.run([sys.executable, "-m", "props.hist_replay", "C17"], input=json.dumps(inst, default=list), capture_output=True,
                           text=True, cwd=run.VERIF, env=dict(os.environ, PYTHONHASHSEED="0"), timeout=300)
        if p.returncode not in (0, 1):
            return False, {"error": p.stderr[-600:]}
        outs.append(p.stdout.strip().splitlines()[-1])
    if outs[0] != outs[1]:
        return False, {"error": "replay not deterministic", "obs": outs}
    o = json.loads(outs[0])
    return bool(o["violation"]), o


def witness(entry):
    import io
    import contextlib

    with contextlib.redirect_stdout(io.StringIO()):
        return replay(entry["witness"]) == 1


def main(tier):
    js = jobs(common.level("C17", tier))
    if common.level("C17", tier) == "deep":
        js = common.widen(js, by=(1, 2))
    return common.run_space_check("C17", tier, js, RULE, ASSUME, budget_s=480 if tier == "quick" else 3000,
                                  confirm=confirm, witness=witness)
