"""Shared wiring for the schedule-space (E1) checks."""
import os
import sys
import time

from psmc import boot, run, analysis, dsl, replay, explore as ex

TIER = os.environ.get("VERIF_TIER", "quick")


# Checks whose former thorough alphabet runs in well under a minute use it as their QUICK alphabet; their thorough
# tier then uses the "deep" alphabet (larger horizons, three-task scenes, denser parameter grids).
SHIFTED = {"C02", "C04", "C06", "C08", "C10", "C11", "C17", "C19"}


def level(pid, tier):
    if pid in SHIFTED:
        return {"quick": "thorough", "thorough": "deep"}[tier]
    return tier


def widen(jobs, by=(1,)):
    """The same programs on longer horizons (the box grows with them): used by the deep alphabets."""
    import copy

    out = list(jobs)
    for inc in by:
        for j in jobs:
            p = j["program"]
            j2 = copy.deepcopy(j)
            if p.get("horizon") is not None:
                j2["program"]["horizon"] = p["horizon"] + inc
            j2["program"]["H"] = p["H"] + inc
            j2["family"] = j.get("family", "") + f"/H+{inc}"
            out.append(j2)
    return out


PRELUDE_OLDER = ["older = ps.SchedulingProblem(name='older_problem', horizon=4)", "older_t = ps.FixedDurationTask(name='older_t', duration=1)",
                 "ps.ObjectiveMinimizeMakespan()", "ps.ObjectiveMinimizeFlowtime()"]
MIDSOLVE = {
    # an older, unrelated problem (two objectives: the weighted-sum path) is solved while this one is being declared
    "older": "try:\n    ps.SchedulingSolver(problem=older).solve()\nexcept Exception:\n    pass",
    "solve": "try:\n    ps.SchedulingSolver(problem=pb).solve()\nexcept Exception:\n    pass",
    "init": "try:\n    ps.SchedulingSolver(problem=pb).initialize()\nexcept Exception:\n    pass",
}


def staged(jobs, stride=1, kinds=("solve",), cuts="alt"):
    """The same programs built in two stages: a prefix of the declarations, then a throw-away solver is created
    and run on the problem as it stands (nothing of it is kept), then the rest, then the solver under check. The
    meaning of the finished problem is that of the one-stage build, so the same oracle applies; what the variant adds
    is every piece of state that a first solver - or anything read while the problem was incomplete - leaves in the
    problem, its tasks or its resources. cuts="alt": one cut per program, alternating between the middle and the
    position before the last declaration; cuts="all": every position."""
    import copy

    out = []
    n = 0
    for j in jobs:
        decls = j["program"]["decls"]
        if len(decls) < 2:
            continue
        n += 1
        if n % stride:
            continue
        m = n // stride
        if cuts == "all":
            where = list(range(1, len(decls)))
        else:
            where = [max(1, len(decls) // 2) if m % 2 else len(decls) - 1]
        for cut in where:
            kind = kinds[(m + cut) % len(kinds)]
            j2 = copy.deepcopy(j)
            j2["program"]["decls"] = decls[:cut] + [{"k": "raw", "src": MIDSOLVE[kind]}] + decls[cut:]
            if kind == "older":
                j2["program"]["prelude"] = list(PRELUDE_OLDER)
            j2["family"] = j.get("family", "") + "+staged-" + kind
            out.append(j2)
    return out


def early(jobs, stride=1):
    """The same programs with the solver object created right after the problem, before the declarations: what a
    solver reads when it is *constructed* (instead of when it is initialised) is stale by the time it solves."""
    import copy

    out = []
    for n, j in enumerate(jobs):
        if n % stride or (j["program"].get("early_solver") is not None):
            continue
        j2 = copy.deepcopy(j)
        kw = dict(j.get("solver") or {})
        kw.setdefault("max_time", 30)
        j2["program"]["early_solver"] = kw
        j2["family"] = j.get("family", "") + "+early-solver"
        out.append(j2)
    return out


def rotate(items, seed=None):
    """VERIF_SEED only rotates the iteration order; no result may depend on it."""
    items = list(items)
    s = boot.SEED if seed is None else seed
    if not items or not s:
        return items
    k = s % len(items)
    return items[k:] + items[:k]


def confirm_instance(inst):
    """Route B: fresh interpreter, public API only, twice."""
    payload = {"program": inst["program"], "leaf": inst["leaf"], "solver": inst.get("solver") or {}}
    if (inst.get("solver") or {}).get("debug"):
        payload["solver"] = {k: v for k, v in payload["solver"].items() if k != "debug"}
    obs, err = run.fresh_replay(payload)
    inst["standalone"] = replay.standalone_source(inst["program"], [(tuple(k), v) for k, v in inst["leaf"]],
                                                   inst["expect"], payload["solver"],
                                                   note=f"expectation: {inst['expect']}")
    if err:
        return False, err
    if inst["expect"] == "reject":
        if obs["result"] != "solution":
            return False, obs
        return True, obs
    if inst["expect"] == "accept":
        # a valid schedule is lost if the public API answers "no solution" - or cannot answer at all
        return obs["result"] in ("unsat", "exception"), obs
    return False, obs


def witness_still_fails(entry):
    import z3

    w = entry["witness"]
    built = dsl.build(w["program"])
    solver = analysis.make_solver(built, w.get("solver"))
    prims = ex.primaries(built, **(w.get("prim_opts") or {}))
    leaf = analysis.leaf_from_list(w["leaf"])
    pk = {p.key for p in prims}
    missing = [k for k in leaf if k not in pk]
    if missing:
        raise RuntimeError(f"witness refers to unknown primaries {missing}")
    r = ex.admits(solver._solver, prims, leaf)
    if w["expect"] == "reject":
        return r == z3.sat
    return r == z3.unsat


def run_space_check(pid, tier, jobs, rule, assumptions, budget_s=None, extra_finish=None, confirm=None, witness=None):
    """Run analysis.analyze over all jobs, aggregate, confirm, write evidence. Returns exit code."""
    chk = run.Check(pid, tier, rule)
    chk.assumptions = assumptions
    jobs = rotate(jobs)
    t0 = time.time()
    n = 0
    a_digests = set()
    want = max(1, len(jobs) // 5)
    for i, j in enumerate(jobs):
        if i % want == 0:
            j["want_sample"] = True
    done_fams = {}
    for status, r in run.pmap(analysis.analyze, jobs, chunk=4):
        n += 1
        if status == "err":
            chk.error(r)
            continue
        fam = r.get("family", "")
        if not r["ok"]:
            chk.error({"error": r["error"], "tb": r.get("tb"), "program": r.get("program"), "family": fam})
            continue
        st = r["stats"]
        chk.add(programs=1, states=st["nodes"] + 1, transitions=st["checks"], admitted_leaves=st["admitted"],
                unknown_leaves=st["unknown_leaves"], evaluations=1,
                traces_validated_against_impl=r["ref"]["valid"] + r["ref"]["invalid"] + r["ref"]["unspec"] + r["ref"]["k"]["valid"],
                ref_valid=r["ref"]["valid"] + r["ref"]["k"]["valid"], ref_invalid=r["ref"]["invalid"],
                ref_unspec=r["ref"]["unspec"] + r["ref"]["k"]["unspec"])
        chk.cov["box_points_covered"] = chk.cov.get("box_points_covered", 0) + st["box"]
        if r.get("nontrivial"):
            if r["A_digest"] not in a_digests:
                a_digests.add(r["A_digest"])
        crit = (r["ref"].get("k") or {}).get("critical")
        if crit:
            led = chk.cov.setdefault("critical_points_per_clause", {})
            for k_, v_ in crit.items():
                led[k_] = led.get(k_, 0) + v_
        if r.get("post_checked"):
            chk.cov["reported_solutions_checked"] = chk.cov.get("reported_solutions_checked", 0) + r["post_checked"]
            chk.cov["traces_validated_against_impl"] += r["post_checked"]
        chk.family(fam, programs=1, admitted=st["admitted"], checks=st["checks"],
                   invalid_admitted=r["ref"]["invalid"], lost=r.get("lost", 0))
        if r.get("capped"):
            chk.cap(f"program in family {fam} hit its solver-call budget")
        if r.get("inconsistent"):
            chk.error({"inconsistent_exploration": r["inconsistent"][:2], "family": fam})
        if r.get("sample"):
            chk.sample(r["sample"])
        for v in r["viol"]:
            for _ in range(1):
                chk.violation(v["sig"], v["instance"])
            chk.groups[run.jdump(v["sig"])]["count"] += v["count"] - 1
        if budget_s and time.time() - t0 > budget_s:
            chk.cap(f"time budget {budget_s}s reached after {n}/{len(jobs)} programs")
            break
    chk.cov["distinct_nontrivial"] = len(a_digests)
    chk.cov["rule"] = rule
    if extra_finish:
        extra_finish(chk)
    return chk.finish(confirm=confirm or confirm_instance, witness_runner=witness or witness_still_fails)
