"""C06 - optional tasks: scheduled like mandatory ones, or inert when not scheduled.

(a)/(c) S-direction with the full reference (an unscheduled task moves no buffer, triggers no clause);
(b) reported view of every admitted leaf that leaves a task unscheduled: not scheduled, no assignment;
(d) deletion differential, implementation vs implementation: the admitted set of P restricted to
    "exactly U unscheduled", projected on the other unknowns, equals the admitted set of P with the tasks
    of U deleted; indicator values agree as well.
"""
import copy
import itertools
import json

from psmc import boot, dsl, analysis, explore as ex, ref
from psmc.dsl import fixed, var, zero, worker, select, cumul, req, con, prog, R, E, new
from . import common, alpha
from psmc import run

RULE = ("programs: scenes of 2-3 tasks with every non-empty subset optional x one element of every family (single/two-task "
        "constraints, groups, contiguity, count rules, workers, selections, cumulative, work amounts, release/due dates, "
        "buffers, every indicator kind, objectives) + the four optional-task rules; for each program the whole box is "
        "explored (E1); for every subset U of optional tasks the rules allow, the leaves with exactly U unscheduled, "
        "projected, are compared as a SET with the exhaustively explored box of the program with U deleted, and the "
        "indicator values of corresponding leaves are compared; every admitted leaf with an unscheduled task is solved "
        "under pins and its reported view checked; non-trivial = program whose admitted set has both scheduled and "
        "unscheduled variants")
ASSUME = ["z3 answers on fully pinned ground queries are correct", "deleting a task = removing its declaration, its requirements, "
          "its membership in task lists, and constraints/buffer accesses that name only it",
          "reference clauses for rules on optional tasks (psmc/ref.py)"]

LIST_KEYS = ("list_of_tasks", "list_of_optional_tasks")


class Inexpressible(Exception):
    """P without U cannot be written with the public API (e.g. a count rule over no task)."""


def delete_tasks(program, U):
    """P \\ U : the same program with the tasks of U deleted (and removed from every list that names them)."""
    U = set(U)
    decls = []
    removed = set(U)
    for d in program["decls"]:
        d = copy.deepcopy(d)
        if d["k"] == "req":
            if d["task"] in U:
                continue
        elif d["k"] == "reqs":
            if d["task"] in U:
                continue
        elif d["k"] == "new":
            if d["id"] in U:
                continue
            a = d["args"]
            for lk in LIST_KEYS:
                if lk in a and isinstance(a[lk], list):
                    a[lk] = [r for r in a[lk] if r.get("$") not in U]
                    if d["cls"] in ("ScheduleNTasksInTimeIntervals", "ForceScheduleNOptionalTasks"):
                        if not a[lk]:
                            raise Inexpressible("count rule over an empty list")
                    elif len(a[lk]) < (2 if d["cls"] == "TasksContiguous" else 1):
                        removed.add(d["id"])
            acc = set()
            analysis._refs_in({k: v for k, v in a.items() if k not in LIST_KEYS}, acc)
            if acc & removed:
                removed.add(d["id"])
            # expressions that mention a deleted task
            if _mentions(a, U):
                removed.add(d["id"])
            if d["id"] in removed:
                continue
        decls.append(d)
    out = dict(program, decls=decls)
    # a resource constraint on a worker that no remaining task uses is vacuous (and is rejected at creation)
    used = {r for (_t, r, *_x) in dsl.reqs_of(out)}
    dd = dsl.decl_by_id(out)
    for r in list(used):
        if r in dd and dd[r]["cls"] == "SelectWorkers":
            used |= {w["$"] for w in dd[r]["args"]["list_of_workers"]}
    keep = []
    dropped = set()
    for d in out["decls"]:
        if d["k"] == "new" and "resource" in d["args"] and isinstance(d["args"]["resource"], dict):
            rid = d["args"]["resource"].get("$")
            need2 = d["cls"] == "ResourceTasksDistance"
            n_users = sum(1 for (_t, r, *_x) in dsl.reqs_of(out) if r == rid or (r in dd and dd[r]["cls"] == "SelectWorkers" and
                                                                               any(w["$"] == rid for w in dd[r]["args"]["list_of_workers"])))
            if n_users == 0 or (need2 and n_users < 2):
                if d["cls"] == "WorkLoad" and d["args"].get("kind", "max") != "max":
                    raise Inexpressible("min/exact workload on a resource without task")
                dropped.add(d["id"])
                continue
        keep.append(d)
    out["decls"] = keep
    if dropped:
        out, _ = analysis.without(out, dropped)
    return out


def _mentions(v, U):
    if isinstance(v, dict):
        if "$e" in v:
            return _expr_mentions(v["$e"], U)
        return any(_mentions(x, U) for x in v.values())
    if isinstance(v, list):
        return any(_mentions(x, U) for x in v)
    return False


def _expr_mentions(a, U):
    if isinstance(a, list):
        if a and a[0] in ("start", "end", "dur", "sched") and a[1] in U:
            return True
        return any(_expr_mentions(x, U) for x in a[1:])
    return False


RULE_CLS = ("OptionalTaskForceSchedule", "OptionalTasksDependency", "ForceScheduleNOptionalTasks", "OptionalTaskConditionSchedule")


def rules_allow(program, U, opt_ids):
    """Do the optional-task rules (flag-only ones) allow exactly U unscheduled? None if time-dependent."""
    sched = {t: (t not in U) for t in opt_ids}
    for d in program["decls"]:
        if d["k"] != "new" or d["cls"] not in RULE_CLS:
            continue
        a = d["args"]
        if d["cls"] == "OptionalTaskConditionSchedule":
            return None
        if d["cls"] == "OptionalTaskForceSchedule":
            if sched.get(a["task"]["$"], True) != a["to_be_scheduled"]:
                return False
        elif d["cls"] == "OptionalTasksDependency":
            s1, s2 = sched.get(a["task_1"]["$"], True), sched.get(a["task_2"]["$"], True)
            if s1 != s2:
                return False if (s1 and not s2) else None
        elif d["cls"] == "ForceScheduleNOptionalTasks":
            n = sum(1 for r in a["list_of_optional_tasks"] if sched.get(r["$"], True))
            if not ref._cmp(a.get("kind", "exact"), n, a.get("nb_tasks_to_schedule", 1)):
                return False
    return True


def indicator_values(solver, prims, leaf, built):
    """Values of every indicator under a fully pinned leaf (None when not uniquely determined is not checked here)."""
    import z3

    zs = solver._solver
    zs.push()
    try:
        zs.add(*ex.pins_of(prims, leaf))
        if zs.check() != z3.sat:
            return None
        m = zs.model()
        out = {}
        for _key, ind in built.pb.indicators.items():
            # (the registry key is the default uid-based name; the reported name is ind.name)
            v = m.eval(ind._indicator_variable, model_completion=True)
            out[ind.name] = v.as_long() if z3.is_int_value(v) else str(v)
        return out
    finally:
        zs.pop()


def reported(solver, prims, leaf):
    zs = solver._solver
    zs.push()
    try:
        zs.add(*ex.pins_of(prims, leaf))
        with boot.quiet():
            return solver.solve()
    finally:
        zs.pop()


def job(j):
    import z3

    program = j["program"]
    res = {"ok": True, "family": j.get("family", ""), "viol": [], "n_subsets": 0, "n_diff_leaves": 0, "n_reported": 0}
    try:
        built = dsl.build(program)
        solver = analysis.make_solver(built, {})
        prims = ex.primaries(built)
        stats = ex.Stats()
        A = []
        for leaf in ex.explore(solver._solver, prims, stats, max_checks=300000):
            A.append(leaf)
        opt_ids = [p.key[1] for p in prims if p.key[0] == "sched"]
        sigs = {}

        def add(sig, inst):
            k = json.dumps(sig, sort_keys=True)
            e = sigs.setdefault(k, [0, inst, sig])
            e[0] += 1

        # (a)/(c): S direction with the full reference
        n_inv = 0
        for leaf in A:
            cl = ref.clauses(program, leaf)
            if ref.verdict(cl) is False:
                n_inv += 1
                for c in cl:
                    if c[3] is False:
                        sig = {"dir": "unsound", "cls": c[1], "clause": c[2],
                               "with_unscheduled_task": any(leaf.get(("sched", t)) is False for t in opt_ids)}
                        if c[4]:
                            sig.update({k: v2 for k, v2 in c[4].items() if isinstance(v2, (str, int, bool))})
                        sig.update(analysis.unsound_disc(program, leaf, c))
                        add(sig, {"program": program, "leaf": analysis._leaf_list(leaf), "expect": "reject", "solver": {}})
        # (b): the reported view of every admitted leaf that leaves a task unscheduled
        has_objective = bool(built.pb.objectives)
        for leaf in A:
            U = [t for t in opt_ids if leaf.get(("sched", t)) is False]
            if not U or has_objective:
                continue
            sol = reported(solver, prims, leaf)
            res["n_reported"] += 1
            if not sol:
                add({"dir": "report", "what": "admitted-leaf-not-returned"}, {"program": program, "leaf": analysis._leaf_list(leaf), "expect": "accept", "solver": {}})
                continue
            dd = dsl.decl_by_id(program)
            for t in U:
                name = dd[t]["args"]["name"]
                ts = sol.tasks[name]
                bad = []
                if ts.scheduled:
                    bad.append("reported-scheduled")
                if ts.assigned_resources:
                    bad.append("has-assigned-resources")
                for rn, rs in sol.resources.items():
                    if any(a[0] == name for a in rs.assignments):
                        bad.append("resource-lists-assignment")
                for b in bad:
                    add({"dir": "report", "what": b, "cls": dd[t]["cls"]},
                        {"program": program, "leaf": analysis._leaf_list(leaf), "expect": "report", "solver": {},
                         "observed": {"scheduled": ts.scheduled, "assigned": ts.assigned_resources, "start": ts.start}})
        # (d): deletion differential
        by_U = {}
        for leaf in A:
            U = tuple(t for t in opt_ids if leaf.get(("sched", t)) is False)
            by_U.setdefault(U, []).append(leaf)
        res["variants"] = len(by_U)
        for r in range(1, len(opt_ids) + 1):
            for U in itertools.combinations(opt_ids, r):
                allow = rules_allow(program, set(U), opt_ids)
                if allow is not True:
                    continue
                try:
                    P2 = delete_tasks(program, U)
                    b2 = dsl.build(P2)
                except (Inexpressible, AssertionError):
                    # P without U cannot be written down (or the library refuses the smaller element list)
                    res["n_inexpressible"] = res.get("n_inexpressible", 0) + 1
                    continue
                res["n_subsets"] += 1
                s2 = analysis.make_solver(b2, {})
                pr2 = ex.primaries(b2)
                keys2 = {p.key for p in pr2}
                # exactly U unscheduled in P  <->  every remaining optional task scheduled in P without U
                A2 = {ex.leaf_key(l): l for l in ex.explore(s2._solver, pr2, stats, max_checks=300000)
                      if all(v for k, v in l.items() if k[0] == "sched")}
                mine = {}
                for leaf in by_U.get(tuple(U), []):
                    pl = {k: v for k, v in leaf.items() if k in keys2}
                    mine[ex.leaf_key(pl)] = leaf
                res["n_diff_leaves"] += len(A2) + len(mine)
                lost = [A2[k] for k in A2 if k not in mine]
                extra = [mine[k] for k in mine if k not in A2]
                feats = analysis.features(program)
                if lost:
                    l2 = dict(lost[0])
                    for t in U:
                        l2[("sched", t)] = False
                    cu = analysis.culprit(program, l2)
                    cls_list = cu[1] if cu else ["?"]
                    add({"dir": "deletion-diff", "side": "lost", "culprit": cls_list,
                         "culprit_family": "buffer" if any("Buffer" in c for c in cls_list) else "other"},
                        {"program": program, "leaf": analysis._leaf_list(l2), "expect": "accept", "solver": {},
                         "deleted": list(U), "program_without": P2})
                if extra:
                    cu = [d["cls"] for d in program["decls"] if d["k"] == "new" and d["cls"] not in analysis.REMOVABLE_SKIP]
                    add({"dir": "deletion-diff", "side": "extra", "elements": sorted(set(cu)),
                         "culprit_family": "buffer" if any("Buffer" in c for c in cu) else "other"},
                        {"program": program, "leaf": analysis._leaf_list(extra[0]), "expect": "reject", "solver": {},
                         "deleted": list(U), "program_without": P2})
                # indicator values of corresponding leaves
                if built.pb.indicators and b2.pb.indicators:
                    for k, leaf in mine.items():
                        if k not in A2:
                            continue
                        v1 = indicator_values(solver, prims, leaf, built)
                        v2 = indicator_values(s2, pr2, A2[k], b2)
                        if v1 is None or v2 is None:
                            continue
                        for name in v2:
                            if name in v1 and v1[name] != v2[name]:
                                add({"dir": "indicator-diff", "indicator": name.split("(")[0].strip(),
                                     "sign": "lower" if isinstance(v1[name], int) and isinstance(v2[name], int) and v1[name] < v2[name] else "higher"},
                                    {"program": program, "leaf": analysis._leaf_list(leaf), "expect": "indicator",
                                     "solver": {}, "deleted": list(U), "with_task": v1[name], "task_deleted": v2[name],
                                     "indicator_name": name})
                                break
        for k, (cnt, inst, sig) in sigs.items():
            res["viol"].append({"sig": sig, "count": cnt, "instance": inst})
        res["stats"] = {"nodes": stats.nodes, "checks": stats.checks, "admitted": len(A), "unknown_leaves": stats.unknown_leaves,
                        "box": ex.box_size(prims)}
        res["invalid"] = n_inv
        if j.get("want_sample"):
            res["sample"] = {"source": built.src, "admitted": len(A), "unscheduled_variants": [list(u) for u in by_U],
                             "subsets_compared": res["n_subsets"]}
    except Exception as e:
        import traceback

        res["ok"] = False
        res["error"] = f"{type(e).__name__}: {e}"[:300]
        res["tb"] = traceback.format_exc()[-1500:]
        res["program"] = program
    return res


# --------------------------------------------------------------------------- alphabet
def elements(H, tier):
    """(label, decls) attached to tasks a, b (and a worker w when needed)."""
    W = [worker("w"), req("a", "w"), req("b", "w")]
    out = [("bare", [])]
    for c in ("TaskStartAt", "TaskEndAt"):
        out.append((c, [con(c, "c1", task=R("a"), value=1)]))
    out.append(("TaskStartAfter", [con("TaskStartAfter", "c1", task=R("a"), value=1, kind="strict")]))
    out.append(("TaskEndBefore", [con("TaskEndBefore", "c1", task=R("b"), value=3)]))
    for k, off in (("lax", 0), ("strict", 1), ("tight", 0), ("tight", 2)):
        out.append(("TaskPrecedence", [con("TaskPrecedence", "c1", task_before=R("a"), task_after=R("b"), kind=k, offset=off)]))
        out.append(("TaskPrecedence", [con("TaskPrecedence", "c1", task_before=R("b"), task_after=R("a"), kind=k, offset=off)]))
    out.append(("TasksStartSynced", [con("TasksStartSynced", "c1", task_1=R("a"), task_2=R("b"))]))
    out.append(("TasksEndSynced", [con("TasksEndSynced", "c1", task_1=R("a"), task_2=R("b"))]))
    out.append(("TasksEndSynced", [con("TasksEndSynced", "c1", task_1=R("b"), task_2=R("a"))]))
    out.append(("TasksDontOverlap", [con("TasksDontOverlap", "c1", task_1=R("a"), task_2=R("b"))]))
    out.append(("TasksContiguous", [con("TasksContiguous", "c1", list_of_tasks=[R("a"), R("b")])]))
    out.append(("UnorderedTaskGroup", [con("UnorderedTaskGroup", "c1", list_of_tasks=[R("a"), R("b")], time_interval=(1, H))]))
    out.append(("UnorderedTaskGroup", [con("UnorderedTaskGroup", "c1", list_of_tasks=[R("a"), R("b")], time_interval_length=2)]))
    for k in ("lax", "tight"):
        out.append(("OrderedTaskGroup", [con("OrderedTaskGroup", "c1", list_of_tasks=[R("a"), R("b")], kind=k)]))
        out.append(("OrderedTaskGroup", [con("OrderedTaskGroup", "c1", list_of_tasks=[R("b"), R("a")], kind=k, time_interval=(0, 3))]))
    for n, k in ((1, "exact"), (1, "min"), (2, "min"), (1, "max"), (0, "max")):
        out.append(("ScheduleNTasksInTimeIntervals", [con("ScheduleNTasksInTimeIntervals", "c1", list_of_tasks=[R("a"), R("b")],
                                                          nb_tasks_to_schedule=n, list_of_time_intervals=[(0, 2)], kind=k)]))
    out.append(("worker", W))
    out.append(("worker+unavailable", W + [con("ResourceUnavailable", "c1", resource=R("w"), list_of_time_intervals=[(1, 2)])]))
    out.append(("worker+workload", W + [con("WorkLoad", "c1", resource=R("w"), kind="min", dict_time_intervals_and_bound={"$tupkeys": [[[0, 3], 2]]})]))
    out.append(("worker+workload", W + [con("WorkLoad", "c1", resource=R("w"), kind="max", dict_time_intervals_and_bound={"$tupkeys": [[[0, 3], 1]]})]))
    out.append(("worker+distance", W + [con("ResourceTasksDistance", "c1", resource=R("w"), distance=1, mode="exact")]))
    out.append(("worker+distance", W + [con("ResourceTasksDistance", "c1", resource=R("w"), distance=1, mode="min")]))
    out.append(("worker+nondelay", W + [con("ResourceNonDelay", "c1", resource=R("w"))]))
    out.append(("worker+interrupted", W + [con("ResourceInterrupted", "c1", resource=R("w"), list_of_time_intervals=[(1, 2)])]))
    out.append(("worker+periodic", W + [con("ResourcePeriodicallyUnavailable", "c1", resource=R("w"), list_of_time_intervals=[(0, 1)], period=2)]))
    out.append(("select", [worker("w"), worker("v"), select("s", ["w", "v"]), req("a", "s"), req("b", "w")]))
    out.append(("select2", [worker("w"), worker("v"), select("s", ["w", "v"]), select("r", ["w", "v"]), req("a", "s"), req("b", "r")]))
    # a selection next to a strict-sort user on one of its workers (points in the past must not meet)
    SW = [worker("w"), worker("v"), select("s", ["w", "v"]), req("a", "s"), req("b", "w")]
    SW2 = [worker("w"), worker("v"), select("s", ["w", "v"]), req("b", "s"), req("a", "w")]
    for lab_, sw in (("a-selects", SW), ("b-selects", SW2)):
        out.append((f"select+nondelay/{lab_}", sw + [con("ResourceNonDelay", "c1", resource=R("w"))]))
        out.append((f"select+distance/{lab_}", sw + [con("ResourceTasksDistance", "c1", resource=R("w"), distance=1, mode="min")]))
        out.append((f"select+idle/{lab_}", sw + [new("IndicatorResourceIdle", "i1", resource=R("w"))]))
    out.append(("select2+same", [worker("w"), worker("v"), select("s", ["w", "v"]), select("r", ["w", "v"]), req("a", "s"), req("b", "r"),
                                 con("SameWorkers", "c1", select_workers_1=R("s"), select_workers_2=R("r"))]))
    out.append(("cumulative", [cumul("w", 2), req("a", "w"), req("b", "w")]))
    out.append(("dynamic", [worker("w"), req("a", "w", dynamic=True), req("b", "w")]))
    out.append(("delay", [worker("w"), req("a", "w", delay_in=2), req("b", "w", delay_in=1)]))
    out.append(("delay", [worker("w"), req("a", "w", delay_in=3), req("b", "w", early_out=1)]))
    # a worker that joins late: the busy interval of the task, once unscheduled, ends before it starts - every
    # resource-constraint class must still leave it alone
    for dl in (2, 3):
        DW = [worker("w"), req("a", "w", delay_in=dl), req("b", "w")]
        for (clab, cdecl) in (
                ("unavailable", con("ResourceUnavailable", "c1", resource=R("w"), list_of_time_intervals=[(0, 1)])),
                ("interrupted", con("ResourceInterrupted", "c1", resource=R("w"), list_of_time_intervals=[(0, 1)])),
                ("interrupted2", con("ResourceInterrupted", "c1", resource=R("w"), list_of_time_intervals=[(1, 2), (3, 4)])),
                ("periodic-unavailable", con("ResourcePeriodicallyUnavailable", "c1", resource=R("w"), list_of_time_intervals=[(0, 1)], period=3)),
                ("periodic-interrupted", con("ResourcePeriodicallyInterrupted", "c1", resource=R("w"), list_of_time_intervals=[(0, 1)], period=3)),
                ("workload", con("WorkLoad", "c1", resource=R("w"), kind="max", dict_time_intervals_and_bound={"$tupkeys": [[[0, 3], 2]]})),
                ("distance", con("ResourceTasksDistance", "c1", resource=R("w"), distance=1, mode="min")),
                ("nondelay", con("ResourceNonDelay", "c1", resource=R("w")))):
            out.append((f"delay{dl}+{clab}", DW + [cdecl]))
    for cls in ("NonConcurrentBuffer", "ConcurrentBuffer"):
        out.append((cls, [new(cls, "bf", name="bf", initial_level=2, lower_bound=0),
                          con("TaskUnloadBuffer", "c1", task=R("a"), buffer=R("bf"), quantity=2),
                          con("TaskUnloadBuffer", "c2", task=R("b"), buffer=R("bf"), quantity=1)]))
        out.append((cls, [new(cls, "bf", name="bf", initial_level=0, upper_bound=2),
                          con("TaskLoadBuffer", "c1", task=R("a"), buffer=R("bf"), quantity=2),
                          con("TaskLoadBuffer", "c2", task=R("b"), buffer=R("bf"), quantity=1)]))
        out.append((cls, [new(cls, "bf", name="bf", initial_level=1, final_level=2),
                          con("TaskLoadBuffer", "c1", task=R("a"), buffer=R("bf"), quantity=1),
                          con("TaskUnloadBuffer", "c2", task=R("b"), buffer=R("bf"), quantity=1)]))
        # a phantom load by the unscheduled task would hide a bound violation
        out.append((cls, [new(cls, "bf", name="bf", initial_level=1, final_level=0, lower_bound=0),
                          con("TaskUnloadBuffer", "c1", task=R("b"), buffer=R("bf"), quantity=2),
                          con("TaskLoadBuffer", "c2", task=R("a"), buffer=R("bf"), quantity=1)]))
    # indicators and objectives
    out.append(("ind:utilization", W + [new("IndicatorResourceUtilization", "i1", resource=R("w"))]))
    out.append(("ind:assigned", W + [new("IndicatorNumberTasksAssigned", "i1", resource=R("w"))]))
    out.append(("ind:idle", W + [new("IndicatorResourceIdle", "i1", resource=R("w"))]))
    out.append(("ind:cost", [worker("w", cost=dsl.const_fn(2)), req("a", "w"), req("b", "w"), new("IndicatorResourceCost", "i1", list_of_resources=[R("w")])]))
    out.append(("ind:cost-linear", [worker("w", cost=dsl.lin_fn(1, 1)), req("a", "w"), req("b", "w"), new("IndicatorResourceCost", "i1", list_of_resources=[R("w")])]))
    out.append(("ind:expr", [new("IndicatorFromMathExpression", "i1", name="i1", expression=E(["+", ["end", "b"], 1]))]))
    out.append(("obj:makespan", [new("ObjectiveMinimizeMakespan", "o1")]))
    out.append(("obj:flowtime", [new("ObjectiveMinimizeFlowtime", "o1")]))
    out.append(("obj:priorities", [new("ObjectivePriorities", "o1")]))
    out.append(("obj:startlatest", [new("ObjectiveTasksStartLatest", "o1")]))
    out.append(("obj:startearliest", [new("ObjectiveTasksStartEarliest", "o1")]))
    out.append(("obj:greateststart", [new("ObjectiveMinimizeGreatestStartTime", "o1")]))
    return out


def due_elements():
    """Indicators that need due dates: scene tasks get due dates."""
    return [("ind:tardiness", [new("IndicatorTardiness", "i1")]), ("ind:earliness", [new("IndicatorEarliness", "i1")]),
            ("ind:tardy", [new("IndicatorNumberOfTardyTasks", "i1")]), ("ind:lateness", [new("IndicatorMaximumLateness", "i1")])]


def task_pool(tier):
    pool = {"F1": lambda i, **k: fixed(i, 1, **k), "F2": lambda i, **k: fixed(i, 2, **k),
            "V": lambda i, **k: var(i, max_duration=2, **k), "Z": lambda i, **k: zero(i, **k)}
    combos = [("F1", "F2"), ("F2", "V"), ("F1", "Z")]
    if tier in ("thorough", "deep"):
        combos += [("V", "F1"), ("F2", "F2"), ("Z", "V")]
    return pool, combos


def jobs(tier):
    out = []
    H = 4
    pool, combos = task_pool(tier)
    for (x, y) in combos:
        for oa, ob in ((True, False), (False, True), (True, True)):
            for extra in ({}, {"release_date": 1}, {"due_date": 3}, {"work_amount": 2}):
                if extra and tier == "quick" and (x, y) != ("F1", "F2") and "work_amount" not in extra:
                    continue
                for (lab, decls) in elements(H, tier):
                    if extra and not (lab in ("bare", "worker", "select", "TaskPrecedence") or lab.startswith("ind:") or lab.startswith("obj:")):
                        continue
                    if "work_amount" in extra and lab not in ("worker", "select", "dynamic"):
                        continue
                    ka = dict(extra, **({"optional": True} if oa else {}))
                    kb = {"optional": True} if ob else {}
                    if "work_amount" in extra and x != "V":
                        continue
                    scene = [pool[x]("a", **ka), pool[y]("b", **kb)]
                    out.append({"program": prog(H, scene + decls), "family": lab})
        # due-date indicators: both tasks carry a due date (not a deadline)
        for oa, ob in ((True, False), (False, True), (True, True)):
            for (lab, decls) in due_elements():
                ka = dict(due_date=2, due_date_is_deadline=False, **({"optional": True} if oa else {}))
                kb = dict(due_date=3, due_date_is_deadline=False, priority=2, **({"optional": True} if ob else {}))
                out.append({"program": prog(H, [pool[x]("a", **ka), pool[y]("b", **kb)] + decls), "family": lab})
    # an optional task too long to fit in the horizon can only be left out - and must then be inert (its length,
    # like its dates, belongs to a task that is not there)
    for dur_b in (H + 3, H + 5):
        for (lab, decls) in elements(H, tier):
            if lab in ("bare", "worker", "cumulative", "TaskPrecedence", "ind:utilization") or lab.startswith("obj:"):
                out.append({"program": prog(H, [fixed("a", 1), fixed("b", dur_b, optional=True)] + decls), "family": lab + "/too-long"})
    out.append({"program": prog(H, [fixed("a", 2), fixed("b", H + 3, optional=True), fixed("c", H + 4, optional=True)]), "family": "bare/too-long"})
    # three tasks, two optional, list constraints
    sc3 = [fixed("a", 1, optional=True), fixed("b", 1, optional=True), fixed("c", 2)]
    for (lab, decls) in [
        ("TasksContiguous/3", [con("TasksContiguous", "c1", list_of_tasks=[R("a"), R("b"), R("c")])]),
        ("OrderedTaskGroup/3", [con("OrderedTaskGroup", "c1", list_of_tasks=[R("a"), R("b"), R("c")], kind="lax")]),
        ("UnorderedTaskGroup/3", [con("UnorderedTaskGroup", "c1", list_of_tasks=[R("a"), R("b"), R("c")], time_interval_length=3)]),
        ("ScheduleN/3", [con("ScheduleNTasksInTimeIntervals", "c1", list_of_tasks=[R("a"), R("b"), R("c")], nb_tasks_to_schedule=2,
                             list_of_time_intervals=[(0, 2)], kind="min")]),
        ("worker/3", [worker("w"), req("a", "w"), req("b", "w"), req("c", "w")]),
        ("worker+distance/3", [worker("w"), req("a", "w"), req("b", "w"), req("c", "w"),
                               con("ResourceTasksDistance", "c1", resource=R("w"), distance=1, mode="min")]),
        ("worker+nondelay/3", [worker("w"), req("a", "w"), req("b", "w"), req("c", "w"), con("ResourceNonDelay", "c1", resource=R("w"))]),
        ("cumulative/3", [cumul("w", 2), req("a", "w"), req("b", "w"), req("c", "w")]),
    ]:
        out.append({"program": prog(3 if "worker" in lab or "cumul" in lab else 4, sc3 + decls), "family": lab})
    # the rules themselves (flag-only rules also take part in the differential)
    for (slab, scene) in alpha.scenes2(tier):
        opt = set(alpha.scene_optional_ids(scene))
        for (rlab, need, rdecls) in alpha.optional_rules(tier):
            if set(need) <= opt:
                out.append({"program": prog(H, scene + rdecls), "family": "rule:" + rlab})
                out.append({"program": prog(H, scene + rdecls + [worker("w"), req("a", "w"), req("b", "w")]), "family": "rule:" + rlab})
    return out


def k_jobs(tier):
    """Programs handed to C05 (direction K with the full reference)."""
    js = jobs(tier)
    return [dict(j, families=["task", "resource", "constraint", "buffer"]) for j in js[:: (3 if tier == "quick" else 1)]]


def confirm(inst):
    exp = inst.get("expect")
    if exp in ("accept", "reject"):
        return common.confirm_instance(inst)
    # report / indicator disagreements: re-executed in a fresh interpreter through solve() under public pins
    payload = {"program": inst["program"], "leaf": inst["leaf"], "solver": {}}
    obs, err = run.fresh_replay(payload)
    if err:
        return False, err
    inst["standalone"] = __import__("psmc.replay", fromlist=["x"]).standalone_source(
        inst["program"], [(tuple(k), v) for k, v in inst["leaf"]], None, {}, note=f"expectation: {exp}; see artefact json")
    if obs["result"] != "solution":
        return False, obs
    dd = dsl.decl_by_id(inst["program"])
    if exp == "indicator":
        got = obs["indicators"].get(inst["indicator_name"])
        return got == inst["with_task"] and got != inst["task_deleted"], obs
    if exp == "report":
        leaf = analysis.leaf_from_list(inst["leaf"])
        for (k, v) in leaf.items():
            if k[0] == "sched" and v is False:
                t = obs["tasks"][dd[k[1]]["args"]["name"]]
                if t[3] or t[4]:
                    return True, obs
        return False, obs
    return False, obs


def main(tier):
    chk = run.Check("C06", tier, RULE)
    chk.assumptions = ASSUME
    js = jobs(common.level("C06", tier))
    if common.level("C06", tier) == "deep":
        js = common.widen(js, by=(1, 2))
    js = common.rotate(js)
    for i, j in enumerate(js):
        if i % max(1, len(js) // 5) == 0:
            j["want_sample"] = True
    distinct = set()
    for status, r in run.pmap(job, js, chunk=2):
        if status == "err" or not r["ok"]:
            chk.error(r if status == "err" else {"error": r["error"], "tb": r["tb"], "program": r["program"]})
            continue
        st = r["stats"]
        chk.add(programs=1, states=st["nodes"] + 1, transitions=st["checks"], admitted_leaves=st["admitted"],
                unknown_leaves=st["unknown_leaves"], evaluations=1 + r["n_subsets"],
                traces_validated_against_impl=r["n_diff_leaves"] + r["n_reported"] + st["admitted"])
        chk.cov["deletion_subsets_compared"] = chk.cov.get("deletion_subsets_compared", 0) + r["n_subsets"]
        chk.cov["reported_solutions_checked"] = chk.cov.get("reported_solutions_checked", 0) + r["n_reported"]
        if r.get("variants", 0) > 1:
            distinct.add((r["family"], st["admitted"], r["n_diff_leaves"]))
        chk.family(r["family"], programs=1, admitted=st["admitted"], subsets=r["n_subsets"])
        if r.get("sample"):
            chk.sample(r["sample"])
        for v in r["viol"]:
            chk.violation(v["sig"], v["instance"])
            chk.groups[run.jdump(v["sig"])]["count"] += v["count"] - 1
    chk.cov["distinct_nontrivial"] = len(distinct)
    return chk.finish(confirm=confirm, witness_runner=witness)


def witness(entry):
    w = entry["witness"]
    if w.get("expect") in ("accept", "reject"):
        return common.witness_still_fails(entry)
    r = job({"program": w["program"]})
    return any(common.run.sig_matches(entry["match"], v["sig"]) for v in r.get("viol", []))
