"""C19 - infeasibility diagnosis names constraints that really conflict (E1-computed infeasible programs, debug runs)."""
import itertools
import json
import re

from psmc import boot, dsl, run, history as hs, ref, analysis, explore as ex
from psmc.dsl import fixed, var, zero, worker, select, cumul, req, con, prog, R, E, new
from . import common, alpha

RULE = ("programs: task / resource / logic constraints on tight horizons so that many are infeasible, each also with 0-2 irrelevant "
        "(satisfiable) constraints inserted before, between and after the conflicting ones, multi-assertion constraints whose later "
        "assertion conflicts, optional constraints forced by a rule, concurrent buffers; E1 decides for every program whether the "
        "box is empty. Infeasible: solve(debug=True) output is parsed; every name after '->' must be a constraint of the problem and "
        "the program reduced to tasks/resources/buffers plus ONLY the named constraints must have an empty box (explored again by "
        "E1); return value False. Feasible: the debug run must return a member of A(P); the non-debug verdict must equal the "
        "debug verdict; non-trivial = infeasible programs whose diagnosis names at least one constraint")
ASSUME = ["E1 on the bounded box decides feasibility (tasks are confined to [0,H] by the basic rules, C01)", "the diagnosis is read from the text printed by solve()",
          "z3 trusted on pinned ground queries"]

NAME_RE = re.compile(r"->\s*(\w+)\(\s*name='((?:[^'\\]|\\.)*)'", re.S)


def dsl_has_objective(program):
    return any(d["k"] == "new" and d["cls"].startswith("Objective") for d in program["decls"])


def diagnose(program, debug=True, calls=1, other_problem=False, opts=None, after_debug_solver=False):
    """Run solve() `calls` times on one solver object; what is returned and printed by the LAST call.
    other_problem=True: another problem (same constraint names, other values) is declared after the solver was
    created and before it is asked. opts: further solver options. after_debug_solver=True: ANOTHER debug solver
    object was created on the same problem and asked first (its verdict is dropped); the answer is the later solver's."""
    import processscheduler as ps

    built = dsl.build(program)
    text = ""
    with boot.no_fd2():
        try:
            with boot.quiet(capture=True):
                if after_debug_solver:
                    ps.SchedulingSolver(problem=built.pb, debug=True, max_time=30, **(opts or {})).solve()
                solver = ps.SchedulingSolver(problem=built.pb, debug=debug, max_time=30, **(opts or {}))
                if other_problem:
                    ps.SchedulingProblem(name="what_if_variant", horizon=50)
                    t_ = ps.FixedDurationTask(name="t_other", duration=1)
                    for cname in list(built.pb.constraints)[:3]:
                        ps.TaskStartAfter(task=t_, value=0, name=cname)
            sol, err = None, None
            for _ in range(calls):
                with boot.quiet(capture=True) as buf:
                    try:
                        sol = solver.solve()
                    finally:
                        text = buf.getvalue()
        except Exception as e:
            sol, err = None, f"{type(e).__name__}: {e}"[:150]
    named = None
    if "Unsatisfied constraints" in text:
        named = [m.group(2) for m in NAME_RE.finditer(text.split("Unsatisfied constraints", 1)[1])]
    elif not sol and not err and "no solution exists" in text:
        # tolerant reading, should the wording of the report change: the constraints of the problem whose printed
        # form (name='...') appears in what the failing solve() wrote
        found = [m.group(1) for m in re.finditer(r"name='((?:[^'\\]|\\.)*)'", text)]
        found = [n for n in found if n in built.pb.constraints]
        if found:
            named = found
    return sol, err, text, named, built


def job(j):
    program = j["program"]
    res = {"ok": True, "family": j["family"], "viol": [], "kind": None, "checks": 0, "leaves": 0, "named": 0}
    try:
        leaves, stats, prims, built, solver = hs.admitted_set(program)
        res["checks"] = stats.checks
        res["leaves"] = len(leaves)
        timings = {hs.timing_of_leaf(program, l) for l in leaves}
        sigs = {}

        def record(what, detail, **kw):
            sig = {"dir": "diagnosis", "what": what}
            sig.update(kw)
            k = json.dumps(sig, sort_keys=True)
            e = sigs.setdefault(k, [0, None, sig])
            e[0] += 1
            if e[1] is None:
                e[1] = {"program": program, "what": what, "detail": detail, "expect": "diagnosis", "solver": j.get("solver")}

        opts = j.get("solver") or {}
        sol, err, text, named, b = diagnose(program, debug=True, opts=opts)
        sol0, err0, text0, _n, _b = diagnose(program, debug=False, opts=opts)
        if err:
            record("debug-run-raised", err)
        elif not leaves:
            res["kind"] = "infeasible"
            unsat_said = "no solution exists" in text
            if sol:
                record("debug-run-returned-solution-for-infeasible-problem", repr(hs.timing_of_solution(program, sol)))
            elif unsat_said or named is not None:
                if named is None:
                    # the incremental optimisation loop never prints a diagnosis (it lists nothing, so nothing it lists is wrong)
                    if not (dsl_has_objective(program) and opts.get("optimizer", "incremental") == "incremental"):
                        record("no-diagnosis-printed", text[-200:])
                else:
                    res["named"] = len(named)
                    cons_by_name = {d["args"].get("name"): d for d in program["decls"] if d["k"] == "new" and d["cls"] in ref.CONSTRAINT_CLS}
                    unknown = [n for n in named if n not in b.pb.constraints]
                    if unknown:
                        record("named-constraint-not-in-problem", repr(unknown))
                    else:
                        # the named set + basic rules must admit no schedule: same program, but every constraint
                        # that is NOT named contributes no assertion (its own list is emptied before the solver is built)
                        b3 = dsl.build(program)
                        for cname, cobj in b3.pb.constraints.items():
                            if cname not in named:
                                cobj._z3_assertions = []
                        s3 = analysis.make_solver(b3, {})
                        st3 = ex.Stats()
                        l2 = list(ex.explore(s3._solver, ex.primaries(b3), st3))
                        res["checks"] += st3.checks
                        if not l2:
                            # with another problem declared in the meantime, the diagnosis still speaks of this problem
                            sol_o, err_o, text_o, named_o, _bo = diagnose(program, debug=True, other_problem=True, opts=opts)
                            if err_o or sol_o or named_o is None:
                                record("diagnosis-changed-by-another-problem", err_o or f"named {named} alone, {named_o} once another problem was declared")
                            elif set(named_o) != set(named):
                                # another core is fine as long as it is one: same rule as above
                                b5 = dsl.build(program)
                                bad_o = [n for n in named_o if n not in b5.pb.constraints]
                                l5 = [None]
                                if not bad_o:
                                    for cname, cobj in b5.pb.constraints.items():
                                        if cname not in named_o:
                                            cobj._z3_assertions = []
                                    st5 = ex.Stats()
                                    l5 = list(ex.explore(analysis.make_solver(b5, {})._solver, ex.primaries(b5), st5))
                                    res["checks"] += st5.checks
                                if l5:
                                    record("diagnosis-changed-by-another-problem", f"named {named} alone, {named_o} once another problem was declared")
                            # a later solver object on the same problem (debug or not) still sees the whole problem
                            sol_p, err_p, text_p, _np, _bp = diagnose(program, debug=False, opts=opts, after_debug_solver=True)
                            if err_p or sol_p or "no solution exists" not in text_p:
                                record("plain-solver-after-a-debug-solver-disagrees", err_p or (repr(hs.timing_of_solution(program, sol_p)) if sol_p else text_p[-200:]))
                            sol_d, err_d, text_d, named_d, _bd = diagnose(program, debug=True, opts=opts, after_debug_solver=True)
                            if err_d or sol_d or named_d is None:
                                record("second-debug-solver-gives-no-diagnosis", err_d or text_d[-200:])
                            elif set(named_d) != set(named):
                                b6 = dsl.build(program)
                                l6 = [None]
                                if all(n in b6.pb.constraints for n in named_d):
                                    for cname, cobj in b6.pb.constraints.items():
                                        if cname not in named_d:
                                            cobj._z3_assertions = []
                                    st6 = ex.Stats()
                                    l6 = list(ex.explore(analysis.make_solver(b6, {})._solver, ex.primaries(b6), st6))
                                    res["checks"] += st6.checks
                                if l6:
                                    record("second-debug-solver-names-a-satisfiable-set", f"first solver named {named}, a second debug solver on the same problem named {named_d}")
                            # asked again, the same solver object must still give a diagnosis that holds
                            sol_2, err_2, text_2, named_2, _b2 = diagnose(program, debug=True, calls=2, opts=opts)
                            if err_2 or sol_2 or named_2 is None:
                                record("second-call-gives-no-diagnosis", err_2 or text_2[-200:])
                            elif set(named_2) != set(named):
                                b4 = dsl.build(program)
                                for cname, cobj in b4.pb.constraints.items():
                                    if cname not in named_2:
                                        cobj._z3_assertions = []
                                st4 = ex.Stats()
                                l4 = list(ex.explore(analysis.make_solver(b4, {})._solver, ex.primaries(b4), st4)) if all(n in b4.pb.constraints for n in named_2) else [None]
                                res["checks"] += st4.checks
                                if l4:
                                    record("second-call-names-a-satisfiable-set", f"first call named {named}, second call on the same solver named {named_2}")
                        if l2:
                            record("named-set-is-satisfiable", f"named {named}; the problem with only these constraints admits {len(l2)} schedules",
                                   n_named=min(len(named), 3), optional_constraint=any(cons_by_name[n]["args"].get("optional") for n in cons_by_name
                                                                                         if n in b3.pb.constraints and cons_by_name[n]["args"].get("optional")))
            if (not sol0) and ("no solution exists" in text0) != unsat_said:
                record("debug-changes-verdict", f"debug unsat={unsat_said} plain unsat={'no solution exists' in text0}")
        else:
            res["kind"] = "feasible"
            if not sol:
                if "no solution exists" in text:
                    record("debug-run-reports-feasible-problem-infeasible", "")
            else:
                tm = hs.timing_of_solution(program, sol)
                if tm not in timings:
                    record("debug-run-returned-schedule-outside-admitted-set", repr(tm))
            if bool(sol) != bool(sol0) and ("no solution exists" in text or "no solution exists" in text0):
                record("debug-changes-verdict", f"debug {bool(sol)} plain {bool(sol0)}")
        for k, (cnt, inst, sig) in sigs.items():
            res["viol"].append({"sig": sig, "count": cnt, "instance": inst})
        if j.get("want_sample"):
            res["sample"] = {"source": built.src, "kind": res["kind"], "named_by_diagnosis": named}
    except Exception as e:
        import traceback

        res["ok"] = False
        res["error"] = f"{type(e).__name__}: {e}"[:300]
        res["tb"] = traceback.format_exc()[-1500:]
        res["program"] = program
    return res


def irrelevant(i):
    """Satisfiable constraints that cannot take part in a conflict on their own."""
    pool = [con("TaskStartAfter", f"irr{i}a", task=R("a"), value=0), con("TaskEndBefore", f"irr{i}b", task=R("b"), value=9),
            con("ConstraintFromExpression", f"irr{i}c", expression=E([">=", ["start", "b"], 0])),
            con("TaskPrecedence", f"irr{i}d", task_before=R("a"), task_after=R("a"), optional=True) if False else con("TaskStartAfter", f"irr{i}d", task=R("b"), value=0)]
    return pool[i % len(pool)]


def jobs(tier):
    out = []
    H = 2
    # 1. the task-constraint grid on a tight horizon (many infeasible), every position of irrelevant constraints
    scenes = [("F1F2", [fixed("a", 1), fixed("b", 2)]), ("F2V", [fixed("a", 2), var("b", min_duration=1, max_duration=2)]),
              ("F1oF2", [fixed("a", 1, optional=True), fixed("b", 2)])]
    cons = alpha.task_constraints_2(H, tier)
    for si, (slab, scene) in enumerate(scenes):
        for ci, (clab, cdecls) in enumerate(cons):
            if (ci + si) % (4 if tier == "quick" else 1):
                continue
            out.append({"program": prog(H, scene + cdecls), "family": clab})
            if ci % 3 == 0:
                out.append({"program": prog(H, scene + [irrelevant(0)] + cdecls + [irrelevant(1)]), "family": clab + "+irrelevant"})
    # 2. pairs of constraints that conflict only together (each alone is fine), irrelevant ones at every position
    base = [fixed("a", 1), fixed("b", 1)]
    pairs = [
        [con("TaskStartAt", "p1", task=R("a"), value=1), con("TaskEndAt", "p2", task=R("a"), value=1)],
        [con("TaskPrecedence", "p1", task_before=R("a"), task_after=R("b")), con("TaskPrecedence", "p2", task_before=R("b"), task_after=R("a"))],
        [con("TaskStartAt", "p1", task=R("a"), value=0), con("TasksStartSynced", "p2", task_1=R("a"), task_2=R("b")), con("TaskStartAfter", "p3", task=R("b"), value=1)],
        [con("TasksDontOverlap", "p1", task_1=R("a"), task_2=R("b")), con("TaskEndBefore", "p2", task=R("a"), value=1), con("TaskEndBefore", "p3", task=R("b"), value=1)],
        [con("UnorderedTaskGroup", "p1", list_of_tasks=[R("a"), R("b")], time_interval=(0, 1)), con("TasksDontOverlap", "p2", task_1=R("a"), task_2=R("b"))],
        [con("ScheduleNTasksInTimeIntervals", "p1", list_of_tasks=[R("a"), R("b")], nb_tasks_to_schedule=2, list_of_time_intervals=[(0, 1)], kind="min"),
         con("TaskStartAt", "p2", task=R("a"), value=1)],
        [con("Not", "p1", constraint={"$new": con("TaskStartAt", "n1", task=R("a"), value=0)}), con("TaskEndBefore", "p2", task=R("a"), value=1)],
        [con("Or", "p1", list_of_constraints=[{"$new": con("TaskStartAt", "n1", task=R("a"), value=1)}, {"$new": con("TaskStartAt", "n2", task=R("b"), value=1)}]),
         con("TaskEndBefore", "p2", task=R("a"), value=1), con("TaskEndBefore", "p3", task=R("b"), value=1)],
        [con("ConstraintFromExpression", "p1", expression=E(["==", ["+", ["start", "a"], ["start", "b"]], 3])), con("TaskEndBefore", "p2", task=R("a"), value=2, kind="strict")],
    ]
    for pr in pairs:
        n = len(pr)
        for pos in range(n + 1):
            for k in (0, 1, 2):
                decls = list(pr)
                for x in range(k):
                    decls.insert(min(pos + x, len(decls)), irrelevant(x + pos))
                out.append({"program": prog(2, base + decls), "family": "pair:" + pr[0]["cls"]})
    # 3. resource constraints; multi-assertion constraints whose LATER assertion is the conflicting one
    W = [fixed("a", 1), fixed("b", 2), worker("w"), req("a", "w"), req("b", "w")]
    rcs = [
        [con("ResourceUnavailable", "r1", resource=R("w"), list_of_time_intervals=[(0, 3)])],
        [con("ResourceUnavailable", "r1", resource=R("w"), list_of_time_intervals=[(5, 6), (0, 2)]), con("TaskStartAt", "r2", task=R("b"), value=0)],
        [con("ResourceUnavailable", "r1", resource=R("w"), list_of_time_intervals=[(0, 1), (2, 3)]), con("TaskStartAt", "r2", task=R("b"), value=1)],
        [con("WorkLoad", "r1", resource=R("w"), kind="max", dict_time_intervals_and_bound={"$tupkeys": [[[0, 3], 2]]})],
        [con("WorkLoad", "r1", resource=R("w"), kind="max", dict_time_intervals_and_bound={"$tupkeys": [[[0, 3], 3], [[1, 3], 1]]}), con("TaskStartAt", "r2", task=R("b"), value=1)],
        [con("ResourceTasksDistance", "r1", resource=R("w"), distance=1, mode="min")],
        [con("ResourceNonDelay", "r1", resource=R("w")), con("TaskStartAt", "r2", task=R("a"), value=0), con("TaskStartAt", "r3", task=R("b"), value=2)] if False else
        [con("ResourceNonDelay", "r1", resource=R("w")), con("TaskPrecedence", "r2", task_before=R("a"), task_after=R("b"), kind="strict")],
        [con("ResourceInterrupted", "r1", resource=R("w"), list_of_time_intervals=[(1, 2)])],
        [con("ResourcePeriodicallyUnavailable", "r1", resource=R("w"), list_of_time_intervals=[(0, 1)], period=2)],
    ]
    for rc in rcs:
        for k in (0, 1, 2):
            decls = list(rc)
            for x in range(k):
                decls.insert(x * 2 if x * 2 <= len(decls) else len(decls), irrelevant(x))
            out.append({"program": prog(3, W + decls), "family": "resource:" + rc[0]["cls"]})
    # 4. optional constraints forced by a rule
    opt = [con("TaskStartAt", "k1", task=R("a"), value=1, optional=True), con("TaskEndBefore", "k2", task=R("a"), value=1, optional=True)]
    out.append({"program": prog(2, base + opt + [con("ForceApplyNOptionalConstraints", "f", list_of_optional_constraints=[R("k1"), R("k2")], nb_constraints_to_apply=2, kind="exact")]),
                "family": "forced-optional"})
    out.append({"program": prog(2, base + opt + [con("ForceApplyNOptionalConstraints", "f", list_of_optional_constraints=[R("k1"), R("k2")], nb_constraints_to_apply=2, kind="min"), irrelevant(0)]),
                "family": "forced-optional"})
    out.append({"program": prog(2, base + [opt[0], con("TaskEndBefore", "k2", task=R("a"), value=1), con("ForceApplyNOptionalConstraints", "f", list_of_optional_constraints=[R("k1")], nb_constraints_to_apply=1)]),
                "family": "forced-optional"})
    # 4b. indicator constraints taking part in the conflict (and irrelevant ones)
    ind = [new("IndicatorFromMathExpression", "i1", name="end_b", expression=E(["end", "b"])), new("IndicatorResourceIdle", "i2", resource=R("w"))]
    Wb = [fixed("a", 1), fixed("b", 1), worker("w"), req("a", "w"), req("b", "w")]
    for extra in (
        [con("IndicatorBounds", "ib", indicator=R("i1"), upper_bound=1), con("TaskPrecedence", "pr", task_before=R("a"), task_after=R("b"))],
        [con("IndicatorTarget", "it", indicator=R("i1"), value=1), con("TaskStartAt", "sa", task=R("b"), value=1)],
        [con("IndicatorBounds", "ib", indicator=R("i2"), lower_bound=1), con("TaskPrecedence", "pr", task_before=R("a"), task_after=R("b"), kind="tight")],
        [con("IndicatorTarget", "it", indicator=R("i2"), value=3)],
        [con("IndicatorBounds", "ib", indicator=R("i1"), upper_bound=3), con("TaskStartAt", "sa", task=R("b"), value=0), con("TaskStartAt", "sa2", task=R("a"), value=0)],
    ):
        for k in (0, 1):
            decls = list(extra)
            if k:
                decls.insert(1, irrelevant(0))
            out.append({"program": prog(3, Wb + ind + decls), "family": "indicator-constraint"})
    # 4c. constraints named like Boolean / integer unknowns of the encoding (a legal name must not change anything)
    opt = [fixed("a", 3, optional=True), fixed("b", 1)]
    out.append({"program": prog(2, opt + [con("OptionalTaskConditionSchedule", "cs", name="a_scheduled", task=R("a"), condition=E([">", ["start", "b"], 5]))]), "family": "name-like-unknown"})
    out.append({"program": prog(2, opt + [con("TaskStartAfter", "cs", name="a_scheduled", task=R("b"), value=0)]), "family": "name-like-unknown"})
    out.append({"program": prog(2, opt + [con("TaskStartAt", "cs", name="b_start", task=R("b"), value=1), con("TaskEndBefore", "ce", name="horizon", task=R("b"), value=2)]), "family": "name-like-unknown"})
    out.append({"program": prog(2, opt + [con("TaskStartAt", "cs", name="a_scheduled", task=R("b"), value=1), con("TaskEndBefore", "ce", name="a_end", task=R("b"), value=1)]), "family": "name-like-unknown"})
    # 4d. an objective next to the conflict. Only the incremental optimiser: with optimizer="optimize" the tracked assertions go
    # through z3.Optimize, whose unsat-core extraction segfaults the interpreter after a few problems in one process (z3 4.12.6;
    # seen on the unchanged tree), so that combination cannot be explored here - see DESIGN 12.13.
    for optimizer in ("incremental",):
        for oi, obj in enumerate((new("ObjectiveMinimizeMakespan", "om"), new("ObjectiveMaximizeIndicator", "om", target=R("ie"), weight=1))):
            pre = [new("IndicatorFromMathExpression", "ie", name="end_a", expression=E(["end", "a"]))] if oi else []
            for pr in pairs[:4] + pairs[6:7]:
                for k in (0, 1):
                    decls = list(pr)
                    if k:
                        decls.insert(1, irrelevant(0))
                    out.append({"program": prog(2, base + pre + decls + [obj]), "solver": {"optimizer": optimizer}, "family": f"objective/{optimizer}"})
            out.append({"program": prog(3, base + pre + [con("TaskStartAt", "p1", task=R("a"), value=1), obj]), "solver": {"optimizer": optimizer},
                        "family": f"objective/{optimizer}"})
    # 5. buffers (basic rules) with a constraint: concurrent buffers go through quantified assertions
    for cls in ("ConcurrentBuffer", "NonConcurrentBuffer"):
        for q, lab in ((2, "infeasible"), (1, "feasible")):
            out.append({"program": prog(2, base + [new(cls, "bf", name="bf", initial_level=2, lower_bound=0),
                                                   con("TaskUnloadBuffer", "u1", task=R("a"), buffer=R("bf"), quantity=q),
                                                   con("TaskUnloadBuffer", "u2", task=R("b"), buffer=R("bf"), quantity=1),
                                                   con("TaskStartAt", "c1", task=R("a"), value=0)]), "family": f"buffer:{cls}:{lab}"})
    return out


def replay(inst):
    r = job({"program": inst["program"], "family": "replay", "solver": inst.get("solver")})
    bad = [v for v in r.get("viol", []) if v["sig"]["what"] == inst["what"]]
    print(json.dumps({"violation": inst["what"] if bad else None, "detail": [v["instance"]["detail"] for v in bad][:1], "error": r.get("error")}))
    return 1 if bad else 0


def confirm(inst):
    import subprocess
    import sys
    import os

    inst["standalone"] = ('"""Stand-alone replay generated by /verif.\n' + f"{inst['what']}: {inst['detail']}\n" + '"""\n' + dsl.gen_source(inst["program"])
                          + f"solver = ps.SchedulingSolver(problem=pb, debug=True, **{inst.get('solver') or {}!r})\nsolution = solver.solve()\nprint(solution)\n")
    outs = []
    for _ in range(2):
        p = subprocess.run([sys.executable, "-m", "props.hist_replay", "C19"], input=json.dumps(inst, default=list), capture_output=True,
                           text=True, cwd=run.VERIF, env=dict(os.environ, PYTHONHASHSEED="0"), timeout=300)
        if p.returncode not in (0, 1):
            return False, {"error": p.stderr[-600:]}
        outs.append(p.stdout.strip().splitlines()[-1])
    if outs[0] != outs[1]:
        return False, {"error": "replay not deterministic", "obs": outs}
    o = json.loads(outs[0])
    return bool(o["violation"]), o


def witness(entry):
    import io
    import contextlib

    with contextlib.redirect_stdout(io.StringIO()):
        return replay(entry["witness"]) == 1


def main(tier):
    chk = run.Check("C19", tier, RULE)
    chk.assumptions = ASSUME
    js = jobs(common.level("C19", tier))
    if common.level("C19", tier) == "deep":
        js = common.widen(js, by=(1, 2))
    for i, j in enumerate(js):
        j["want_sample"] = i % max(1, len(js) // 6) == 0
    js = common.rotate(js)
    n_named = 0
    kinds = {"feasible": 0, "infeasible": 0}
    for status, r in run.pmap(job, js, chunk=2):
        if status == "err" or not r["ok"]:
            chk.error(r if status == "err" else {"error": r["error"], "tb": r["tb"], "program": r.get("program")})
            continue
        chk.add(programs=1, states=r["leaves"] + 1, transitions=r["checks"] + 2, evaluations=1, traces_validated_against_impl=2, admitted_leaves=r["leaves"])
        if r["kind"]:
            kinds[r["kind"]] += 1
        if r["named"]:
            n_named += 1
        chk.family(r["family"], programs=1, infeasible=1 if r["kind"] == "infeasible" else 0, diagnoses_with_names=1 if r["named"] else 0)
        if r.get("sample"):
            chk.sample(r["sample"])
        for v in r["viol"]:
            chk.violation(v["sig"], v["instance"])
            chk.groups[run.jdump(v["sig"])]["count"] += v["count"] - 1
    chk.cov["distinct_nontrivial"] = n_named
    chk.cov["feasible_programs"] = kinds["feasible"]
    chk.cov["infeasible_programs"] = kinds["infeasible"]
    return chk.finish(confirm=confirm, witness_runner=witness)
