"""C03 - every declared task constraint holds in every returned schedule (E1, direction S)."""
from psmc.dsl import prog
from . import common, alpha

RULE = ("programs: every task-constraint class x boundary parameter grid (values -1..H+1, lax/strict/tight, offsets 0-2, every "
        "window/interval list, counts 0..m x exact/min/max) on 2-task scenes (fixed/variable/zero duration, every optional "
        "subset) and 3-task scenes, plus the optional-task rules; box = all starts/ends in [-1,H+1], durations, scheduled "
        "flags; every admitted leaf is judged by the class clause of the reference; non-trivial = admitted and refuted "
        "prefixes both present; distinct = distinct admitted sets")
ASSUME = ["z3 answers on fully pinned ground queries are correct", "reference clauses in psmc/ref.py (_CON table)",
          "UNSPEC corners of DESIGN.md section 4 are skipped (counted as ref_unspec)"]


def jobs(tier):
    out = []
    H = 4
    fams = ["task", "constraint"]
    sc2 = alpha.scenes2(tier)
    cons = alpha.task_constraints_2(H, tier)
    for si, (slab, scene) in enumerate(sc2):
        for ci, (clab, cdecls) in enumerate(cons):
            # quick: every class on every scene, parameter grid thinned by a fixed stride per scene
            if tier == "quick" and (ci + si) % 3 != 0:
                continue
            out.append({"program": prog(H, scene + cdecls), "families": fams, "family": clab})
    for (slab, scene) in alpha.scenes3(tier):
        for (clab, cdecls) in alpha.task_constraints_3(H, tier):
            out.append({"program": prog(H, scene + cdecls), "families": fams, "family": clab + "/3"})
    # rules on optional tasks
    for (slab, scene) in sc2:
        opt = set(alpha.scene_optional_ids(scene))
        for (rlab, need, rdecls) in alpha.optional_rules(tier):
            if set(need) <= opt:
                out.append({"program": prog(H, scene + rdecls), "families": fams, "family": rlab})
    # a task group as an operand of a precedence: the other task comes after the last / before the first member
    from psmc.dsl import fixed, var, con, R
    for scene in ([fixed("a", 1), fixed("b", 1), fixed("c", 1)], [fixed("a", 1), fixed("b", 2, optional=True), fixed("c", 1)]):
        for gkw in ({"time_interval": (0, 3)}, {"time_interval": (1, 4)}, {"time_interval_length": 2}, {}):
            for k in ("lax", "strict", "tight"):
                for off in (0, 1):
                    g = con("UnorderedTaskGroup", "g", list_of_tasks=[R("a"), R("b")], **gkw)
                    out.append({"program": prog(H, scene + [g, con("TaskPrecedence", "c1", task_before=R("g"), task_after=R("c"), kind=k, offset=off)]),
                                "families": fams, "family": "TaskPrecedence/group-before"})
                    out.append({"program": prog(H, scene + [g, con("TaskPrecedence", "c1", task_before=R("c"), task_after=R("g"), kind=k, offset=off)]),
                                "families": fams, "family": "TaskPrecedence/group-after"})
    if tier == "thorough":
        # horizon 5 for the two-task grid of the count/group constraints
        cons5 = [c for c in alpha.task_constraints_2(5, tier) if c[0] in ("ScheduleNTasksInTimeIntervals", "OrderedTaskGroup", "UnorderedTaskGroup", "TaskPrecedence")]
        for (slab, scene) in sc2[::3]:
            for (clab, cdecls) in cons5:
                out.append({"program": prog(5, scene + cdecls), "families": fams, "family": clab + "/H5"})
    return out


def main(tier):
    js = jobs(tier)
    for (lab, kind, p_) in alpha.interaction_programs(tier):
        if kind in ("task", "task0"):
            js.append({"program": p_, "families": ["task", "resource", "constraint"], "family": "interaction:" + lab.split("/")[2]})
    base = list(js)
    js += common.staged(base, stride=5 if tier == "quick" else 1, kinds=("solve", "init", "older"))
    js += common.early(base, stride=6 if tier == "quick" else 2)
    for j in js:
        # "binds only when the tasks concerned are scheduled": also the converse direction on every program
        j["directions"] = "SK"
    return common.run_space_check("C03", tier, js, RULE, ASSUME, budget_s=480 if tier == "quick" else 3000)
