"""C12 - asking for another solution enumerates distinct valid schedules, exhaustively (E3 + E2 model order)."""
import itertools
import json

from psmc import boot, dsl, run, history as hs, ctl
from psmc.dsl import fixed, var, zero, worker, select, cumul, req, con, prog, R, E, new
from . import common

RULE = ("programs with at most 12 distinct valid timings (one/two/three tasks, optional tasks, selections: same timing with "
        "different workers, a constraint, free horizon); A(P) is computed by E1 first. (1) enumeration histories: solve, then "
        "find_another_solution until it fails plus two further calls, under EVERY order in which z3 could deliver the "
        "schedules when there are <=4 timings (E2 model choice, all choice sequences) and every run with <=1 (quick) / <=2 "
        "(thorough) order deviations otherwise; (2) all call sequences of length <=3 (quick) / <=4 (thorough) over "
        "{another, another_for(v)} after solve, v in a menu of task variables; every observation is judged by the protocol "
        "model (distinct, valid, fails only when nothing is left, excluded value honoured, never raises); non-trivial = "
        "histories whose observations are not all identical")
ASSUME = ["A(P) from E1 (z3 trusted on pinned ground queries)", "steered models are models of the implementation's own assertion stack (re-checked under pins)",
          "timing = start/end/scheduled of every task; values of unscheduled tasks are internal"]


def programs(tier):
    out = []
    out.append(("1F", prog(3, [fixed("a", 1)]), [["start", "a"], ["end", "a"]]))
    out.append(("1V", prog(2, [var("a", max_duration=2)]), [["start", "a"], ["dur", "a"], ["end", "a"]]))
    out.append(("1Fo", prog(2, [fixed("a", 1, optional=True)]), [["start", "a"]]))
    out.append(("1Fo-tight", prog(2, [fixed("a", 2, optional=True)]), [["start", "a"], ["end", "a"]]))
    out.append(("1Fo-forced", prog(3, [fixed("a", 1, optional=True), con("OptionalTaskForceSchedule", "r", task=R("a"), to_be_scheduled=True)]), []))
    out.append(("2F", prog(3, [fixed("a", 1), fixed("b", 2)]), [["start", "a"], ["start", "b"], ["end", "b"]]))
    out.append(("2F+prec", prog(4, [fixed("a", 1), fixed("b", 2), con("TaskPrecedence", "c", task_before=R("a"), task_after=R("b"))]),
                [["start", "a"], ["start", "b"]]))
    out.append(("F+Fo", prog(2, [fixed("a", 1), fixed("b", 1, optional=True)]), [["start", "a"]]))
    out.append(("Fo+Vo", prog(2, [fixed("a", 2, optional=True), var("b", min_duration=1, max_duration=2, optional=True)]), []))
    out.append(("worker", prog(3, [fixed("a", 1), fixed("b", 1), worker("w"), req("a", "w"), req("b", "w")]), [["start", "a"], ["end", "b"]]))
    out.append(("select", prog(2, [fixed("a", 1), worker("w"), worker("v"), select("s", ["w", "v"]), req("a", "s")]), [["start", "a"]]))
    # (no free-horizon program: the property speaks of problems with a horizon - without one the set is infinite)
    out.append(("zero", prog(2, [zero("a"), fixed("b", 2)]), [["start", "a"]]))
    # no user horizon, but the timings are bounded by deadlines (the box covers them all)
    out.append(("deadlines-no-horizon", prog(None, [fixed("a", 2, due_date=3), fixed("b", 1, due_date=2)], H=3), [["start", "a"]]))
    # many tasks: 66 pinned ones and two free ones (the blocking clause has ~200 disjuncts)
    wide = [fixed(f"p{i}", 1) for i in range(66)] + [con("TaskStartAt", f"s{i}", task=R(f"p{i}"), value=0) for i in range(66)] + [fixed("a", 1), fixed("b", 1)]
    out.append(("wide", prog(2, wide), []))
    if tier == "thorough":
        out.append(("3F", prog(3, [fixed("a", 1), fixed("b", 1), fixed("c", 2), worker("w"), req("a", "w"), req("b", "w"), req("c", "w")]),
                    [["start", "a"], ["start", "c"]]))
        out.append(("Vo+F", prog(3, [var("a", max_duration=2, optional=True), fixed("b", 2)]), [["start", "b"]]))
        out.append(("cumul", prog(2, [fixed("a", 1), fixed("b", 2), cumul("c", 2), req("a", "c"), req("b", "c")]), [["start", "a"]]))
        out.append(("opt-force", prog(2, [fixed("a", 1, optional=True), fixed("b", 1, optional=True),
                                          con("ForceScheduleNOptionalTasks", "r", list_of_optional_tasks=[R("a"), R("b")], nb_tasks_to_schedule=1, kind="min")]), []))
    return out


def judge(program, leaves, obs):
    p = hs.Protocol(program, leaves)
    for i, o in enumerate(obs):
        why = p.step(o)
        if why == "UNSPEC":
            return None, p
        if why:
            return (i, why), p
    return False, p


def job(j):
    program, menu, tier = j["program"], j["menu"], j["tier"]
    skw = j.get("solver") or {}
    res = {"ok": True, "family": j["family"], "viol": [], "runs": 0, "calls": 0, "states": set(), "outcomes": set(), "points": 0}
    try:
        leaves, stats, prims, built, solver = hs.admitted_set(program)
        res["e1"] = {"admitted": len(leaves), "checks": stats.checks}
        timings = sorted({hs.timing_of_leaf(program, l) for l in leaves}, key=repr)
        n = len(timings)
        res["timings"] = n
        sigs = {}

        def record(hist, choices, obs, bad, mode):
            i, why = bad
            ev = obs[i]["ev"]
            has_opt = any(t["args"].get("optional") for t in dsl.tasks_of(program))
            has_var = any(t["cls"] == "VariableDurationTask" for t in dsl.tasks_of(program))
            kind = ("raised" if obs[i]["kind"] == "raise" else "failed-early" if obs[i]["kind"] == "false" else
                    "outside-admitted-set" if "outside" in why else "repeated-or-excluded")
            sig = {"dir": "protocol", "call": ev[0], "what": kind, "optional_tasks": has_opt, "variable_duration": has_var}
            if skw:
                sig["solver"] = "+".join(sorted(skw))
            k = json.dumps(sig, sort_keys=True)
            e = sigs.setdefault(k, [0, None, sig])
            e[0] += 1
            cand = {"program": program, "history": hist, "choices": None if choices == "lazy" else choices,
                    "steer": "lazy" if choices == "lazy" else (choices is not None), "step": i, "why": why, "solver": skw,
                    "observations": [dict(o, timing=list(o["timing"]) if o.get("timing") else None) for o in obs], "expect": "protocol",
                    "n_timings": n}
            if e[1] is None or len(json.dumps(cand)) < len(json.dumps(e[1])):
                e[1] = cand

        part = j.get("part", "all")
        # (1) enumeration histories
        hist = [["solve"]] + [["another"]] * (n + 2)
        bound = None if n <= 4 else (1 if tier == "quick" else 2)

        def runner(choices):
            obs, env, _s, _b = hs.run_history(program, hist, choices=choices, leaves=leaves, steer=True, solver_kw=skw)
            env.obs = obs
            return env

        roots = [None]
        if part != "all":
            roots = [[part]] if isinstance(part, int) else []
        # the unsteered run (whatever z3 returns)
        obs, env, _s, _b = hs.run_history(program, hist, solver_kw=skw)
        res["runs"] += 1
        res["calls"] += len(hist)
        bad, p = judge(program, leaves, obs)
        res["outcomes"].add(repr([o.get("timing") for o in obs]))
        if bad:
            record(hist, None, obs, bad, "enumerate")
        elif bad is False:
            got = [o["timing"] for o in obs if o["kind"] == "solution"]
            if len(set(got)) != n:
                record(hist, None, obs, (len(obs) - 1, f"visited {len(set(got))} of {n} timings"), "enumerate")
        n_bad = 0
        for choices, env in (x for root in roots for x in ctl.explore_choices(runner, bound=bound, max_runs=j.get("max_runs", 3000), root=root)):
            if n_bad >= 3:
                break  # a broken implementation makes the order tree explode: three counterexamples are enough
            obs = env.obs
            res["runs"] += 1
            res["calls"] += len(hist)
            res["points"] += len(env.points)
            res["outcomes"].add(repr([o.get("timing") for o in obs]))
            bad, p = judge(program, leaves, obs)
            res["states"].add(p.key())
            if bad:
                n_bad += 1
                record(hist, [pt["chosen"] for pt in env.points], obs, bad, "enumerate")
            elif bad is False:
                got = [o["timing"] for o in obs if o["kind"] == "solution"]
                if len(got) != len(set(got)) or len(set(got)) != n:
                    n_bad += 1
                    record(hist, [pt["chosen"] for pt in env.points], obs, (len(obs) - 1, f"visited {len(set(got))} of {n} timings"), "enumerate")
        # (2) all short sequences over {another, another_for(v)} after solve (and before: the documented error)
        alphabet = [["another"]] + [["another_for", v] for v in menu]
        depth = 3 if tier == "quick" else 4
        if part not in ("all", "seq"):
            depth = -1
        for L in range(0, depth + 1):
            for seq in itertools.product(alphabet, repeat=L):
                for pre in ([["solve"]], []) if L <= 2 else ([["solve"]],):
                    h = pre + [list(e) for e in seq]
                    if not h:
                        continue
                    # canonical model order (first consistent admitted leaf): the same in every process
                    obs, env, _s, _b = hs.run_history(program, h, leaves=leaves, steer="lazy", solver_kw=skw)
                    res["runs"] += 1
                    res["calls"] += len(h)
                    res["outcomes"].add(repr([o.get("timing") for o in obs]))
                    bad, p = judge(program, leaves, obs)
                    res["states"].add(p.key())
                    if bad:
                        record(h, "lazy", obs, bad, "sequence")
        for k, (cnt, inst, sig) in sigs.items():
            res["viol"].append({"sig": sig, "count": cnt, "instance": inst})
        if j.get("want_sample"):
            res["sample"] = {"source": built.src, "timings": [list(map(list, t)) for t in timings][:6], "n_timings": n,
                             "enumeration_runs_all_orders": bound is None}
    except Exception as e:
        import traceback

        res["ok"] = False
        res["error"] = f"{type(e).__name__}: {e}"[:300]
        res["tb"] = traceback.format_exc()[-1500:]
    res["states"] = len(res["states"])
    res["outcomes"] = len(res["outcomes"])
    return res


def replay_instance(inst):
    """Re-execute one protocol artefact (used by confirm in a fresh interpreter and by --replay)."""
    program = inst["program"]
    leaves = None
    if inst.get("steer"):
        leaves, *_ = hs.admitted_set(program)
    obs, env, _s, _b = hs.run_history(program, inst["history"], choices=inst.get("choices"), leaves=leaves, steer=inst.get("steer") or False,
                                      solver_kw=inst.get("solver"))
    if leaves is None:
        leaves, *_ = hs.admitted_set(program, inst.get("solver"))
    return obs, leaves


STANDALONE = '''"""Stand-alone replay generated by /verif: a call history on one SchedulingSolver.
{note}
"""
{src}
solver = ps.SchedulingSolver(problem=pb)
results = []
{calls}
print(results)
'''


def standalone(inst):
    src = dsl.gen_source(inst["program"])
    calls = []
    for ev in inst["history"]:
        if ev[0] == "solve":
            calls.append("results.append(solver.solve())")
        elif ev[0] == "another":
            calls.append("results.append(solver.find_another_solution())")
        elif ev[0] == "another_for":
            calls.append(f"results.append(solver.find_another_solution_for_variable({dsl.expr_src(ev[1])}))")
        elif ev[0] == "initialize":
            calls.append("solver.initialize()")
        elif ev[0] == "export":
            calls.append("solver.export_to_smt2('/tmp/verif_export.smt2')")
    return STANDALONE.format(note=f"step {inst['step']}: {inst['why']}" + (" (model order steered by the harness)" if inst.get("steer") else ""),
                             src=src, calls="\n".join(calls))


def confirm(inst):
    """Fresh interpreter, twice: the same history (and choices) must give the same protocol violation."""
    import subprocess
    import sys
    import os

    inst["standalone"] = standalone(inst)
    outs = []
    for _ in range(2):
        p = subprocess.run([sys.executable, "-m", "props.hist_replay", "C12"], input=json.dumps(inst, default=list), capture_output=True,
                           text=True, cwd=run.VERIF, env=dict(os.environ, PYTHONHASHSEED="0"), timeout=300)
        if p.returncode not in (0, 1):
            return False, {"error": p.stderr[-600:]}
        outs.append(p.stdout.strip().splitlines()[-1])
    if outs[0] != outs[1]:
        return False, {"error": "replay not deterministic", "obs": outs}
    o = json.loads(outs[0])
    return bool(o["violation"]), o


def replay(inst):
    obs, leaves = replay_instance(inst)
    bad, p = judge(inst["program"], leaves, obs)
    print(json.dumps({"violation": bad if bad else None, "observations": [[o["ev"][0], o["kind"], str(o.get("timing"))[:160]] for o in obs]}, default=list))
    return 1 if bad else 0


def witness(entry):
    w = entry["witness"]
    obs, leaves = replay_instance(w)
    bad, p = judge(w["program"], leaves, obs)
    return bool(bad)


def main(tier):
    chk = run.Check("C12", tier, RULE)
    chk.assumptions = ASSUME
    js = []
    for i, (lab, program, menu) in enumerate(programs(tier)):
        if tier == "quick":
            js.append({"program": program, "menu": menu, "family": lab, "tier": tier, "want_sample": i % 3 == 0})
            if lab in ("1F", "F+Fo", "1V"):
                # the debug path feeds assertions through assert_and_track
                js.append({"program": program, "menu": menu, "family": lab + "/debug", "tier": tier, "solver": {"debug": True}})
        else:
            # one job per first model choice (a root choice that does not exist is an empty job) + one for the call sequences
            js.append({"program": program, "menu": menu, "family": lab, "tier": tier, "want_sample": i % 3 == 0, "part": "seq"})
            for k in range(12):
                js.append({"program": program, "menu": menu, "family": lab, "tier": tier, "part": k, "max_runs": 600})
    js = common.rotate(js)
    nontrivial = 0
    for status, r in run.pmap(job, js, chunk=1):
        if status == "err" or not r["ok"]:
            chk.error(r if status == "err" else {"error": r["error"], "tb": r["tb"]})
            continue
        chk.add(programs=1, states=r["states"] + r["e1"]["admitted"], transitions=r["calls"] + r["e1"]["checks"], evaluations=r["runs"],
                traces_validated_against_impl=r["runs"], admitted_leaves=r["e1"]["admitted"])
        chk.cov["histories_executed"] = chk.cov.get("histories_executed", 0) + r["runs"]
        chk.cov["model_choice_points"] = chk.cov.get("model_choice_points", 0) + r["points"]
        nontrivial += r["outcomes"]
        chk.family(r["family"], histories=r["runs"], timings=r["timings"], distinct_outcomes=r["outcomes"])
        if r.get("sample"):
            chk.sample(r["sample"])
        for v in r["viol"]:
            chk.violation(v["sig"], v["instance"])
            chk.groups[run.jdump(v["sig"])]["count"] += v["count"] - 1
    chk.cov["distinct_nontrivial"] = nontrivial
    return chk.finish(confirm=confirm, witness_runner=witness)
