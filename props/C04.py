"""C04 - every declared resource constraint holds in every returned schedule (E1, direction S)."""
import itertools

from psmc.dsl import fixed, var, zero, worker, select, cumul, req, con, prog, R, E, new
from . import common, alpha

RULE = ("programs: every resource-constraint class x parameter grid (every sub-interval list, bounds 0..len+1 x kinds, "
        "distances 0..3 x modes, periods 2-4 x offsets x masks, min/max duration grids, Same/Distinct over 2-3 worker lists) on "
        "1-3 task scenes on a plain worker, through a selection of two workers, and on a cumulative worker; box = task times "
        "in [-1,H+1], durations, scheduled and selection flags; every admitted leaf judged by the class clause; "
        "non-trivial = admitted and refuted prefixes both present")
ASSUME = ["z3 answers on fully pinned ground queries are correct", "reference clauses in psmc/ref.py",
          "UNSPEC: zero-length busy intervals inside windows, periodic repetitions straddling the activity mask, "
          "min/exact workloads and distances on cumulative workers"]


def scenes(tier):
    """(label, decls, resource id the constraint targets)"""
    out = []
    W = [worker("w")]
    out.append(("1F2", [fixed("a", 2)] + W + [req("a", "w")], "w"))
    out.append(("F1F2", [fixed("a", 1), fixed("b", 2)] + W + [req("a", "w"), req("b", "w")], "w"))
    out.append(("F2V", [fixed("a", 2), var("b", min_duration=1, max_duration=3)] + W + [req("a", "w"), req("b", "w")], "w"))
    out.append(("F1oF2", [fixed("a", 1, optional=True), fixed("b", 2)] + W + [req("a", "w"), req("b", "w")], "w"))
    # due dates that are not deadlines say nothing about what the worker may do afterwards
    out.append(("F1F2due", [fixed("a", 1, due_date=1, due_date_is_deadline=False), fixed("b", 2, due_date=2, due_date_is_deadline=False)] + W +
                [req("a", "w"), req("b", "w")], "w"))
    out.append(("Vdue", [var("a", min_duration=1, max_duration=3, due_date=2, due_date_is_deadline=False), fixed("b", 1)] + W + [req("a", "w"), req("b", "w")], "w"))
    # two variable-duration tasks on one worker: what one task crosses must not lengthen the other
    out.append(("VV", [var("a", min_duration=1, max_duration=3), var("b", min_duration=1, max_duration=2)] + W + [req("a", "w"), req("b", "w")], "w"))
    out.append(("sel", [fixed("a", 2), fixed("b", 1), worker("w"), worker("v"), select("s", ["w", "v"]), req("a", "s"), req("b", "w")], "w"))
    if tier in ("thorough", "deep"):
        out.append(("F1F1F2", [fixed("a", 1), fixed("b", 1), fixed("c", 2)] + W + [req(i, "w") for i in "abc"], "w"))
        out.append(("VZ", [var("a", max_duration=2), zero("b")] + W + [req("a", "w"), req("b", "w")], "w"))
        out.append(("delay", [fixed("a", 3), fixed("b", 1)] + W + [req("a", "w", delay_in=1), req("b", "w")], "w"))
    return out


def cumul_scenes(tier):
    out = [("cF2F2", [fixed("a", 2), fixed("b", 2), cumul("w", 2), req("a", "w"), req("b", "w")], "w")]
    if tier in ("thorough", "deep"):
        out.append(("cF1F2V", [fixed("a", 1), fixed("b", 2), var("c", min_duration=1, max_duration=2), cumul("w", 2)] + [req(i, "w") for i in "abc"], "w"))
    return out


def rcons(H, tier, cumulative=False):
    out = []
    ivs = alpha.intervals(H)
    sub = ivs if tier in ("thorough", "deep") else ivs[::2]
    for iv in sub:
        out.append(("ResourceUnavailable", [con("ResourceUnavailable", "c1", resource=R("w"), list_of_time_intervals=[iv])]))
    for a, b in [((0, 1), (2, 3)), ((1, 2), (3, 5)), ((0, 2), (1, 3))]:
        out.append(("ResourceUnavailable", [con("ResourceUnavailable", "c1", resource=R("w"), list_of_time_intervals=[a, b])]))
    out.append(("ResourceUnavailable", [con("ResourceUnavailable", "c1", resource=R("w"), list_of_time_intervals=[(0, 1), (2, 3), (4, 5)])]))
    out.append(("ResourceUnavailable", [con("ResourceUnavailable", "c1", resource=R("w"), list_of_time_intervals=[(4, 5), (0, 1), (2, 3)])]))
    out.append(("ResourceInterrupted", [con("ResourceInterrupted", "c1", resource=R("w"), list_of_time_intervals=[(0, 1), (2, 3), (4, 5)])]))
    for kind in ("max", "min", "exact"):
        out.append(("WorkLoad", [con("WorkLoad", "c1", resource=R("w"), kind=kind,
                                     dict_time_intervals_and_bound={"$tupkeys": [[[0, 1], 1], [[1, 3], 1], [[3, 5], 1]]})]))
    # workload
    for iv in sub:
        L = iv[1] - iv[0]
        for bound in sorted({0, 1, L, L + 1}):
            for kind in ("max", "min", "exact"):
                out.append(("WorkLoad", [con("WorkLoad", "c1", resource=R("w"), kind=kind,
                                             dict_time_intervals_and_bound={"$tupkeys": [[list(iv), bound]]})]))
    for kind in ("max", "min", "exact"):
        out.append(("WorkLoad", [con("WorkLoad", "c1", resource=R("w"), kind=kind,
                                     dict_time_intervals_and_bound={"$tupkeys": [[[0, 2], 1], [[2, 5], 2]]})]))
    # interrupted
    for iv in sub:
        out.append(("ResourceInterrupted", [con("ResourceInterrupted", "c1", resource=R("w"), list_of_time_intervals=[iv])]))
    out.append(("ResourceInterrupted", [con("ResourceInterrupted", "c1", resource=R("w"), list_of_time_intervals=[(1, 2), (3, 4)])]))
    if not cumulative:
        for dist in (0, 1, 2, 3):
            for mode in ("exact", "min", "max"):
                out.append(("ResourceTasksDistance", [con("ResourceTasksDistance", "c1", resource=R("w"), distance=dist, mode=mode)]))
                for ivl in ([(0, 3)], [(1, 4)], [(0, 2), (3, 5)]):
                    out.append(("ResourceTasksDistance", [con("ResourceTasksDistance", "c1", resource=R("w"), distance=dist, mode=mode,
                                                              list_of_time_intervals=list(ivl))]))
        out.append(("ResourceNonDelay", [con("ResourceNonDelay", "c1", resource=R("w"))]))
    return out


def periodic(H, tier):
    out = []
    for period in (2, 3, 4):
        for lo in range(0, period):
            for hi in range(lo + 1, period + 1):
                if hi - lo == period:
                    continue
                for off in ((0, 1, 2) if tier in ("thorough", "deep") else (0, 1)):
                    masks = [(0, None)]
                    if tier in ("thorough", "deep") or (lo + hi + off) % 2 == 0:
                        masks += [(2, None), (0, H - 2), (2, H - 1)]
                    for st, en in masks:
                        kw = {}
                        if st:
                            kw["start"] = st
                        if en is not None:
                            kw["end"] = en
                        if off:
                            kw["offset"] = off
                        out.append(("ResourcePeriodicallyUnavailable",
                                    [con("ResourcePeriodicallyUnavailable", "c1", resource=R("w"), list_of_time_intervals=[(lo, hi)], period=period, **kw)]))
                        out.append(("ResourcePeriodicallyInterrupted",
                                    [con("ResourcePeriodicallyInterrupted", "c1", resource=R("w"), list_of_time_intervals=[(lo, hi)], period=period, **kw)]))
    return out


def same_distinct(tier):
    out = []
    for nw, l1, l2 in [(2, ["w1", "w2"], ["w1", "w2"]), (3, ["w1", "w2", "w3"], ["w1", "w2", "w3"]), (3, ["w1", "w2"], ["w2", "w3"]),
                       (3, ["w1", "w2", "w3"], ["w2", "w3"])]:
        for n1, n2 in [(1, 1), (2, 1), (1, 2)]:
            if n1 > len(l1) or n2 > len(l2):
                continue
            for k1 in (("exact", "min") if tier in ("thorough", "deep") else ("exact",)):
                for cls in ("SameWorkers", "DistinctWorkers"):
                    base = [fixed("a", 1), fixed("b", 1)] + [worker(f"w{i}") for i in range(1, nw + 1)]
                    base += [select("s1", l1, n1, k1), select("s2", l2, n2, "exact"), req("a", "s1"), req("b", "s2"),
                             con(cls, "c1", select_workers_1=R("s1"), select_workers_2=R("s2"))]
                    out.append((cls, base))
    return out


def jobs(tier):
    out = []
    fam = ["task", "resource", "constraint"]
    H = 5
    for (slab, sdecls, rid) in scenes(tier):
        for (clab, cdecls) in rcons(H, tier):
            if clab in ("ResourceTasksDistance", "ResourceNonDelay") and slab == "1F2":
                continue
            out.append({"program": prog(H, sdecls + cdecls), "families": fam, "family": clab})
    for (slab, sdecls, rid) in cumul_scenes(tier):
        for (clab, cdecls) in rcons(4, tier, cumulative=True):
            out.append({"program": prog(4, sdecls + cdecls), "families": fam, "family": clab + "/cumulative"})
    # periodic constraints: horizon 8 so that at least two repetitions lie in the box
    Hp = 8
    psc = [("1F2", [fixed("a", 2), worker("w"), req("a", "w")]), ("1F3", [fixed("a", 3), worker("w"), req("a", "w")]),
           ("1V", [var("a", min_duration=1, max_duration=4), worker("w"), req("a", "w")]),
           ("1V2", [var("a", min_duration=1, max_duration=2), worker("w"), req("a", "w")])]
    psc.append(("cF2", [fixed("a", 2), fixed("b", 1), cumul("w", 2), req("a", "w"), req("b", "w")]))
    psc.append(("sel", [fixed("a", 2), worker("w"), worker("v"), select("s", ["w", "v"]), req("a", "s")]))
    psc.append(("VV", [var("a", min_duration=1, max_duration=3), var("b", min_duration=1, max_duration=2), worker("w"), req("a", "w"), req("b", "w")]))
    if tier in ("thorough", "deep"):
        psc.append(("F1F2", [fixed("a", 1), fixed("b", 2), worker("w"), req("a", "w"), req("b", "w")]))
    for (slab, sdecls) in psc:
        for pi, (clab, cdecls) in enumerate(periodic(Hp, tier)):
            if tier == "quick" and slab in ("cF2", "sel", "VV") and pi % 3:
                continue
            out.append({"program": prog(Hp, sdecls + cdecls), "families": fam, "family": clab})
    for (clab, decls) in same_distinct(tier):
        out.append({"program": prog(2, decls), "families": fam, "family": clab})
    # two constraints of one class on one resource, the first one optional (it may be left unapplied; the second one
    # binds whatever happens to the first), same and different parameters
    sc = [fixed("a", 2), fixed("b", 2), worker("w"), req("a", "w"), req("b", "w")]
    twice = [
        ("WorkLoad", lambda i, **k: con("WorkLoad", i, resource=R("w"), kind="max", dict_time_intervals_and_bound={"$tupkeys": [[[0, 4], 3]]}, **k),
         lambda i, **k: con("WorkLoad", i, resource=R("w"), kind="max", dict_time_intervals_and_bound={"$tupkeys": [[[0, 4], 2]]}, **k)),
        ("ResourceUnavailable", lambda i, **k: con("ResourceUnavailable", i, resource=R("w"), list_of_time_intervals=[(0, 1)], **k),
         lambda i, **k: con("ResourceUnavailable", i, resource=R("w"), list_of_time_intervals=[(1, 2)], **k)),
        ("ResourceInterrupted", lambda i, **k: con("ResourceInterrupted", i, resource=R("w"), list_of_time_intervals=[(0, 1)], **k),
         lambda i, **k: con("ResourceInterrupted", i, resource=R("w"), list_of_time_intervals=[(2, 3)], **k)),
        ("ResourceTasksDistance", lambda i, **k: con("ResourceTasksDistance", i, resource=R("w"), distance=1, mode="min", **k),
         lambda i, **k: con("ResourceTasksDistance", i, resource=R("w"), distance=2, mode="max", **k)),
        ("ResourcePeriodicallyUnavailable", lambda i, **k: con("ResourcePeriodicallyUnavailable", i, resource=R("w"), list_of_time_intervals=[(0, 1)], period=3, **k),
         lambda i, **k: con("ResourcePeriodicallyUnavailable", i, resource=R("w"), list_of_time_intervals=[(1, 2)], period=3, **k)),
    ]
    for (clab, mk1, mk2) in twice:
        for first, second in ((mk1, mk1), (mk1, mk2), (mk2, mk1)):
            out.append({"program": prog(6, sc + [first("c1", optional=True), second("c2")]), "families": fam, "family": clab + "/twice"})
            out.append({"program": prog(6, sc + [first("c1"), second("c2", optional=True)]), "families": fam, "family": clab + "/twice"})
    # two periodic constraints on one resource with the SAME period and DIFFERENT offsets / activity windows (anything the
    # encoder keeps per (task, period) must not leak from the first constraint into the second)
    sc1 = [fixed("a", 1), fixed("b", 2), worker("w"), req("a", "w"), req("b", "w")]
    for cls in ("ResourcePeriodicallyUnavailable", "ResourcePeriodicallyInterrupted"):
        def mk(i, ivl, cls=cls, **k):
            return con(cls, i, resource=R("w"), list_of_time_intervals=[ivl], period=4, **k)
        for kw1, kw2 in (({}, {"offset": 2}), ({"offset": 1}, {"offset": 3}), ({"offset": 2}, {}), ({}, {"offset": 1, "start": 4}),
                         ({"end": 4}, {"offset": 2})):
            for iv1, iv2 in (((0, 1), (0, 1)), ((0, 1), (1, 2))):
                out.append({"program": prog(8, sc1 + [mk("c1", iv1, **kw1), mk("c2", iv2, **kw2)]), "families": fam,
                            "family": cls + "/twice-offsets"})
    # a constraint whose encoding has many assertions, on a solver that tracks them one by one (debug mode)
    big = [fixed(t, 1) for t in "abcd"] + [worker("w")] + [req(t, "w") for t in "abcd"]
    out.append({"program": prog(6, big + [con("WorkLoad", "c1", resource=R("w"), kind="max",
                                              dict_time_intervals_and_bound={"$tupkeys": [[[0, 2], 2], [[2, 4], 2], [[4, 6], 0]]})]),
                "solver": {"debug": True}, "families": fam, "family": "WorkLoad/many-assertions/debug"})
    return out


def main(tier):
    lvl = common.level("C04", tier)
    js = jobs(lvl)
    for (lab, kind, p_) in alpha.interaction_programs(lvl):
        if kind == "resource":
            js.append({"program": p_, "families": ["task", "resource", "constraint"], "family": "interaction:" + lab.split("/")[2]})
    if lvl == "deep":
        js = common.widen(js, by=(1, 2))
    base = list(js)
    js += common.staged(base, stride=5 if tier == "quick" else 2, kinds=("solve", "init", "older"))
    js += common.early(base, stride=6 if tier == "quick" else 3)
    return common.run_space_check("C04", tier, js, RULE, ASSUME, budget_s=480 if tier == "quick" else 3000)
