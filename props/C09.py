"""C09 - buffer levels follow loads/unloads in time order and stay within bounds (E1, S and K, reported levels)."""
import itertools

from psmc import dsl, analysis, ref
from psmc.dsl import fixed, var, zero, worker, req, con, prog, R, E, new
from . import common

RULE = ("programs: both buffer classes x initial {None,0,2,5} x final {None,0,3} x lower {None,0} x upper {None,3} x 1-3 tasks each "
        "loading and/or unloading quantities 1-3 (every role assignment), fixed durations 1-2, zero-duration and optional "
        "variants, two buffers sharing a task; the box contains every placement of the tasks, hence every interleaving and "
        "every tie of load/unload instants; oracle = time-ordered reference walk (S on admitted leaves, K on VALID "
        "leaves) and, for every admitted leaf, the level / level_change_times reported by the real solve() under pins "
        "must equal the reference sequence; non-trivial = admitted and refuted prefixes both present")
ASSUME = ["z3 answers on fully pinned ground queries are correct (the concurrent encoding is quantified: undecided leaves are counted and excluded)",
          "reference walk buffer_clauses in psmc/ref.py"]

FAM = ["task", "constraint", "buffer"]


def report_check(program, built, solver, prims, leaves, job):
    """Reported buffer levels of every admitted leaf against the reference walk."""
    out = []
    dd = dsl.decl_by_id(program)
    for leaf in leaves:
        view = ref.View(program, leaf)
        if any(not s for s in view.sched.values()):
            continue  # (unscheduled accessors: known finding territory of C06, the walk is not defined by the report)
        sol = analysis.solve_under_pins(solver, prims, leaf)
        if isinstance(sol, analysis.Raised):
            out.append(analysis.raised_violation(program, leaf, sol))
            continue
        if not sol:
            out.append(({"dir": "report", "what": "admitted-leaf-not-returned"},
                        {"program": program, "leaf": analysis._leaf_list(leaf), "expect": "accept", "solver": {}}))
            continue
        for b in dsl.decls_of(program, "NonConcurrentBuffer", "ConcurrentBuffer"):
            a = b["args"]
            verdict, times, deltas = ref.buffer_walk(view, b["id"])
            init = a.get("initial_level")
            if init is None:
                init = a["final_level"] - sum(deltas)
            levels = [init]
            for dq in deltas:
                levels.append(levels[-1] + dq)
            bs = sol.buffers[a["name"]]
            if list(bs.level) != levels or list(bs.level_change_times) != times:
                out.append(({"dir": "report", "what": "levels-differ-from-walk", "cls": b["cls"],
                             "same_length": len(bs.level) == len(levels)},
                            {"program": program, "leaf": analysis._leaf_list(leaf), "expect": "buffers", "solver": {},
                             "buffer": a["name"], "reported": [list(bs.level), list(bs.level_change_times)],
                             "reference": [levels, times]}))
    return out


analysis.POST["buffers"] = report_check


def roles(n, tier):
    """All assignments of roles to n tasks: each task is L(oad) q, U(nload) q or both."""
    opts = [("L", 1), ("U", 1), ("L", 2), ("U", 2), ("LU", 1)]
    if tier == "thorough":
        opts += [("L", 3), ("U", 3), ("L", 0)]
    return list(itertools.product(opts, repeat=n))


def buffer_variants(tier):
    inits = [0, 2, None] if tier == "quick" else [None, 0, 2, 5]
    finals = [None, 0, 3]
    out = []
    for cls in ("NonConcurrentBuffer", "ConcurrentBuffer"):
        for i in inits:
            for f in finals:
                if i is None and f is None:
                    continue
                for lo in (None, 0):
                    for up in ((None, 3) if tier == "quick" else (None, 0, 3)):
                        kw = {}
                        if i is not None:
                            kw["initial_level"] = i
                        if f is not None:
                            kw["final_level"] = f
                        if lo is not None:
                            kw["lower_bound"] = lo
                        if up is not None:
                            kw["upper_bound"] = up
                        out.append((cls, kw))
    return out


def access(tid, role, q, bid, i):
    out = []
    if "L" in role:
        out.append(con("TaskLoadBuffer", f"l{i}", task=R(tid), buffer=R(bid), quantity=q))
    if "U" in role:
        out.append(con("TaskUnloadBuffer", f"u{i}", task=R(tid), buffer=R(bid), quantity=q))
    return out


def jobs(tier):
    out = []
    bvs = buffer_variants(tier)
    k = 0
    for n in (1, 2, 3):
        ids = ["a", "b", "c"][:n]
        H = 4 if n < 3 else 3
        tvars = [[fixed(i, 1) for i in ids], [fixed(i, d) for i, d in zip(ids, (2, 1, 1))]]
        if n == 2:
            tvars.append([fixed("a", 1), zero("b")])
            tvars.append([fixed("a", 2), var("b", max_duration=2)])
        for rs in roles(n, tier):
            for (cls, kw) in bvs:
                k += 1
                # quick: a fixed stride over the (roles x buffer variant) product; thorough: all for n<=2, stride 4 for n=3
                stride = {1: 1, 2: 3, 3: 13} if tier == "quick" else {1: 1, 2: 1, 3: 4}
                if k % stride[n]:
                    continue
                ts = tvars[k % len(tvars)]
                decls = list(ts) + [new(cls, "bf", name="bf", **kw)]
                for i, (tid, (role, q)) in enumerate(zip(ids, rs)):
                    decls += access(tid, role, q, "bf", i)
                out.append({"program": prog(H, decls), "families": FAM, "family": f"{cls}/{n}", "directions": "SK", "post": "buffers"})
    # a buffer that no task touches: its level never moves, so a final level or bound that the initial level misses
    # makes the problem infeasible (and a second, untouched buffer next to a used one changes nothing)
    for (cls, kw) in bvs:
        out.append({"program": prog(3, [fixed("a", 1), new(cls, "bf", name="bf", **kw)]), "families": FAM, "family": f"{cls}/untouched",
                    "directions": "SK", "post": "buffers"})
    for (cls, kw) in bvs[::5]:
        out.append({"program": prog(3, [fixed("a", 1), new("ConcurrentBuffer", "b0", name="b0", initial_level=1), new(cls, "bf", name="bf", **kw),
                                        con("TaskLoadBuffer", "l0", task=R("a"), buffer=R("b0"), quantity=1)]),
                    "families": FAM, "family": f"{cls}/untouched+used", "directions": "SK", "post": "buffers"})
    # bounds assigned after the buffer and its accesses were declared: the values at solve time count
    for cls in ("NonConcurrentBuffer", "ConcurrentBuffer"):
        for attr, v0, v1 in (("upper_bound", None, 2), ("upper_bound", 5, 1), ("lower_bound", None, 1), ("lower_bound", 0, 2)):
            kw = {"initial_level": 1}
            if v0 is not None:
                kw[attr] = v0
            out.append({"program": prog(4, [fixed("a", 1), fixed("b", 1), new(cls, "bf", name="bf", **kw),
                                            con("TaskLoadBuffer", "l0", task=R("a"), buffer=R("bf"), quantity=2),
                                            con("TaskUnloadBuffer", "u1", task=R("b"), buffer=R("bf"), quantity=1), dsl.setattr_("bf", attr, v1)]),
                        "families": FAM, "family": f"{cls}/bound-assigned-later", "directions": "SK", "post": "buffers"})
    # optional accessor (S/K only; report check skips unscheduled accessors)
    for cls in ("NonConcurrentBuffer", "ConcurrentBuffer"):
        out.append({"program": prog(4, [fixed("a", 1, optional=True), fixed("b", 1), new(cls, "bf", name="bf", initial_level=1, lower_bound=0),
                                        con("TaskUnloadBuffer", "u0", task=R("a"), buffer=R("bf"), quantity=1),
                                        con("TaskLoadBuffer", "l1", task=R("b"), buffer=R("bf"), quantity=1)]),
                    "families": FAM, "family": f"{cls}/optional", "directions": "S", "post": "buffers"})
    # two buffers sharing a task
    for c1, c2 in (("NonConcurrentBuffer", "ConcurrentBuffer"), ("ConcurrentBuffer", "ConcurrentBuffer"), ("NonConcurrentBuffer", "NonConcurrentBuffer")):
        out.append({"program": prog(4, [fixed("a", 2), fixed("b", 1),
                                        new(c1, "b1", name="b1", initial_level=2, lower_bound=0), new(c2, "b2", name="b2", initial_level=0, upper_bound=2),
                                        con("TaskUnloadBuffer", "u0", task=R("a"), buffer=R("b1"), quantity=2),
                                        con("TaskLoadBuffer", "l0", task=R("a"), buffer=R("b2"), quantity=2),
                                        con("TaskUnloadBuffer", "u1", task=R("b"), buffer=R("b2"), quantity=1),
                                        con("TaskLoadBuffer", "l1", task=R("b"), buffer=R("b1"), quantity=1)]),
                    "families": FAM, "family": "two-buffers", "directions": "SK", "post": "buffers"})
    return out


def k_jobs(tier):
    return []  # C09 runs both directions itself


def confirm(inst):
    if inst.get("expect") in ("accept", "reject"):
        return common.confirm_instance(inst)
    from psmc import run, replay
    obs, err = run.fresh_replay({"program": inst["program"], "leaf": inst["leaf"], "solver": {}})
    inst["standalone"] = replay.standalone_source(inst["program"], [(tuple(k), v) for k, v in inst["leaf"]], None, {},
                                                  note=f"expected buffer '{inst['buffer']}' levels/times {inst['reference']}")
    if err or obs["result"] != "solution":
        return False, err or obs
    return obs["buffers"][inst["buffer"]] != inst["reference"], obs


def main(tier):
    return common.run_space_check("C09", tier, jobs(tier), RULE, ASSUME, budget_s=480 if tier == "quick" else 3000,
                                  confirm=confirm)
