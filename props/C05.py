"""C05 - no valid schedule is lost: infeasibility verdicts are truthful (E1, direction K)."""
from psmc import boot, dsl, analysis
from . import common

RULE = ("programs: union of the C01-C04, C06, C09, C10 alphabets (quick: a fixed stride of each; thorough: all); for each program "
        "the reference enumerates every point of the box in Python and every point it calls VALID must be admitted by the "
        "implementation's assertion set (membership in the exhaustively explored admitted set, re-checked as a fully pinned "
        "leaf); whenever a VALID point exists the real solve() must not answer 'no solution exists'; a lost schedule is "
        "attributed to a 1-minimal set of culprit declarations and confirmed through the public API in a fresh process; "
        "non-trivial = admitted and refuted prefixes both present")
ASSUME = ["z3 answers on fully pinned ground queries are correct", "reference model psmc/ref.py; UNSPEC points are not demanded",
          "auxiliary unknowns (sorted copies, overlap durations, unit-worker choices) stay existential"]


def jobs(tier):
    from . import C01, C02, C03, C04

    out = []
    strides = {"C01": 9, "C02": 1, "C03": 2, "C04": 1} if tier == "quick" else {"C01": 2, "C02": 1, "C03": 1, "C04": 1}
    for name, mod in (("C01", C01), ("C02", C02), ("C03", C03), ("C04", C04)):
        js = mod.jobs(tier)
        for i, j in enumerate(js):
            if i % strides[name]:
                continue
            if (j.get("solver") or {}).get("debug"):
                continue
            j = dict(j, directions="K", family=name + ":" + j["family"].split("/")[0],
                     families=["task", "resource", "constraint", "buffer"])
            out.append(j)
    from . import alpha
    for (lab, kind, p_) in alpha.interaction_programs(tier):
        out.append({"program": p_, "directions": "K", "family": "interaction:" + kind, "families": ["task", "resource", "constraint", "buffer"]})
    for extra in ("C06", "C09", "C10"):
        try:
            mod = __import__(f"props.{extra}", fromlist=["x"])
        except ImportError:
            continue
        if hasattr(mod, "k_jobs"):
            for j in mod.k_jobs(tier):
                out.append(dict(j, directions="K", family=extra + ":" + j["family"].split("/")[0]))
    return out


def verdict_job(job):
    """(ii) if the reference knows a VALID schedule, the real solve() must not answer 'no solution exists'."""
    import processscheduler as ps

    program = job["program"]
    built = dsl.build(program)
    with boot.quiet(capture=True) as buf:
        solver = ps.SchedulingSolver(problem=built.pb, max_time=60)
        sol = solver.solve()
    return {"unsat": (not sol) and "no solution exists" in buf.getvalue(), "solution": bool(sol)}


def main(tier):
    js = jobs(tier)
    base = list(js)
    js += common.staged(base, stride=6 if tier == "quick" else 4, kinds=("solve", "init", "older"))
    js += common.early(base, stride=7 if tier == "quick" else 5)
    return common.run_space_check("C05", tier, js, RULE, ASSUME, budget_s=480 if tier == "quick" else 3000)
